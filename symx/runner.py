"""Obligation runner: parallel execution, known-finding matching, evidence, exit codes."""
from __future__ import annotations

import hashlib
import importlib
import inspect
import json
import multiprocessing as mp
import os
import signal
import sys
import time
import traceback
from dataclasses import dataclass, field
from typing import Any, Callable, Dict, List, Optional

VERIF = os.path.dirname(os.path.dirname(os.path.abspath(__file__)))


@dataclass
class Obligation:
    id: str
    harness: Optional[Callable] = None  # symbolic harness h(ctx)
    desc: str = ""
    bounds: Dict[str, Any] = field(default_factory=dict)
    encoded: List[Any] = field(default_factory=list)  # real functions executed symbolically
    models: List[str] = field(default_factory=list)  # environment models / assumptions
    opts: Dict[str, Any] = field(default_factory=dict)
    twin: bool = True
    ground: Optional[Callable] = None  # concrete auxiliary check: () -> (ok, detail, cases)
    system_replay: Optional[Callable] = None  # (cex) -> (reproduced, detail) through the public API
    setup: Optional[Callable] = None  # run once in the worker before exploring (warm-up)
    collect_all: bool = False
    alternatives: List[Callable] = field(default_factory=list)  # see DESIGN 3.5: per-program oracle variants


def fn_fingerprint(f) -> dict:
    try:
        f0 = inspect.unwrap(f)
        if isinstance(f0, (classmethod, staticmethod)):
            f0 = f0.__func__
        if isinstance(f0, property):
            f0 = f0.fget
        src = inspect.getsource(f0)
        lines, start = inspect.getsourcelines(f0)
        fn = inspect.getsourcefile(f0)
        return {
            "function": getattr(f0, "__qualname__", str(f0)),
            "file": os.path.relpath(fn, "/repo") if fn and fn.startswith("/repo") else fn,
            "lines": [start, start + len(lines) - 1],
            "sha256": hashlib.sha256(src.encode()).hexdigest()[:16],
        }
    except Exception as e:  # builtins etc.
        return {"function": repr(f), "error": str(e)}


def _run_one(args):
    modname, oid, tier, seed = args
    t0 = time.time()
    out = {"id": oid, "status": "error", "notes": [], "wall_s": 0.0}
    try:
        from symx import engine as E

        mod = importlib.import_module(modname)
        obs = {o.id: o for o in mod.obligations(tier, seed)}
        ob = obs[oid]
        out["desc"] = ob.desc
        out["bounds"] = ob.bounds
        out["models"] = ob.models
        out["encoded"] = [fn_fingerprint(f) for f in ob.encoded]
        if ob.setup is not None:
            ob.setup()
        if ob.ground is not None:
            ok, detail, cases = ob.ground()
            out.update(status="holds" if ok else "violation", ground=True, cases=cases,
                       notes=[detail] if detail else [], replayed=True if not ok else None)
            if not ok:
                out["counterexample"] = {"label": "ground", "inputs": {}, "info": {"detail": detail}}
            out["wall_s"] = round(time.time() - t0, 3)
            return out
        opts = dict(per_path_timeout=30.0, total_timeout=150.0, vc_timeout=10.0)
        opts.update(ob.opts)
        has_known = any(k.get("status", "known") == "known" and k.get("property") == getattr(mod, "PROPERTY", None)
                        and k.get("obligation") in (oid, "*") for k in load_known())
        # with a listed known finding keep exploring, so that a different violation of the same obligation is still reported
        res = E.explore(ob.harness, oid, stop_on_violation=not (ob.collect_all or has_known), **opts)
        if res.status == "violation" and ob.alternatives:
            # The oracle admits a family of behaviours (a fixed per-program relabelling of i.i.d. draws,
            # any activation set of measure p): each variant is a separate complete exploration.
            t_alt = time.time()
            for k, alt in enumerate(ob.alternatives):
                if time.time() - t_alt > float(ob.opts.get("alt_budget", 300.0)):
                    break
                r2 = E.explore(alt, f"{oid}/alt{k + 1}", **opts)
                if r2.status == "holds":
                    r2.notes.append(f"holds under oracle variant {k + 1} (primary variant refuted: "
                                    f"{(res.counterexample or {}).get('label')})")
                    r2.paths += res.paths
                    r2.vcs += res.vcs
                    res = r2
                    break
        out.update(res.to_json())
        if hasattr(mod, "counters"):
            out["counters"] = mod.counters()
        out["branch_fallbacks"] = dict(E._branch_stats)
        if res.status == "violation" and ob.system_replay is not None:
            try:
                ok, detail = ob.system_replay(res.counterexample)
                out["system_replay"] = {"reproduced": bool(ok), "detail": str(detail)[:600]}
                if not ok:
                    out["status"] = "error"
                    out["notes"].append("system replay did not reproduce: " + str(detail)[:300])
            except Exception as e:
                out["system_replay"] = {"reproduced": False, "detail": f"crashed: {e!r}"}
                out["status"] = "error"
        if ob.twin and res.status == "holds":
            topts = dict(opts)
            topts["total_timeout"] = min(60.0, opts["total_timeout"])
            tw = E.explore(ob.harness, oid + "/twin", twin=True, **topts)
            out["twin"] = tw.status
            if tw.status != "violation":
                out["status"] = "error"
                out["notes"].append(f"reachability twin did not fail ({tw.status}): vacuous harness")
    except BaseException as e:  # noqa
        out["status"] = "error"
        out["notes"].append("worker crashed: " + "".join(traceback.format_exception(e))[-2000:])
    out["wall_s"] = round(time.time() - t0, 3)
    return out


def load_known():
    p = os.path.join(VERIF, "known_findings.json")
    if not os.path.exists(p):
        return []
    return json.load(open(p)).get("findings", [])


def run_property(modname: str, tier: str, seed: int, jobs: int = 16, only: Optional[str] = None) -> int:
    t0 = time.time()
    mod = importlib.import_module(modname)
    pid = mod.PROPERTY
    for m in getattr(mod, "PRELOAD", []):
        importlib.import_module(m)  # imported once in the parent; workers are forked
    from symx import engine as _E  # noqa: F401
    obs = mod.obligations(tier, seed)
    if only:
        obs = [o for o in obs if only in o.id]
    tasks = [(modname, o.id, tier, seed) for o in obs]
    results = []
    ctx = mp.get_context("fork")
    hard = float(os.environ.get("SYMX_HARD_TIMEOUT", "1500" if tier == "quick" else "14400"))
    with ctx.Pool(min(jobs, max(1, len(tasks))), maxtasksperchild=1) as pool:
        it = pool.imap_unordered(_run_one, tasks)
        deadline = time.time() + hard
        done = set()
        while len(results) < len(tasks):
            try:
                r = it.next(timeout=max(1.0, deadline - time.time()))
            except mp.TimeoutError:
                break
            except StopIteration:
                break
            results.append(r)
            done.add(r["id"])
            print(f"[{pid}] {r['id']}: {r['status']} paths={r.get('paths', '-')} "
                  f"vcs={r.get('vcs', '-')} {r['wall_s']}s", flush=True)
        for o in obs:
            if o.id not in done:
                results.append({"id": o.id, "status": "inconclusive", "notes": ["hard timeout"], "wall_s": hard})
        pool.terminate()
    results.sort(key=lambda r: r["id"])

    known = [k for k in load_known() if k.get("property") == pid]
    violations, known_hits, errors = [], [], []
    os.makedirs(os.path.join(VERIF, "replays", pid), exist_ok=True)
    for r in results:
        if r["status"] == "violation":
            cexs = r.get("counterexamples") or [r.get("counterexample") or {}]
            for cex in cexs:
                k = next((k for k in known if k.get("status", "known") == "known"
                          and k["obligation"] in (r["id"], "*")
                          and (k.get("label") in (None, cex.get("label")))), None)
                if k is not None:
                    if not any(kk is k for kk, _ in known_hits):
                        known_hits.append((k, r))
                else:
                    h = hashlib.sha256(json.dumps([r["id"], cex], sort_keys=True, default=str).encode()).hexdigest()[:12]
                    path = os.path.join(VERIF, "replays", pid, f"{h}.json")
                    json.dump({"property": pid, "module": modname, "obligation": r["id"], "tier": tier,
                               "seed": seed, "counterexample": cex, "notes": r.get("notes", [])[-3:],
                               "system_replay": r.get("system_replay")}, open(path, "w"), indent=1, default=str)
                    violations.append((dict(r, counterexample=cex), path))
        elif r["status"] == "error":
            errors.append(r)

    for k, r in known_hits:
        print(f"KNOWN-FINDING: property={pid} {k['what']} [obligation {r['id']}]")
    for r, path in violations:
        cex = r.get("counterexample") or {}
        print(f"VIOLATION property={pid} replay={path}")
        print(f"  obligation={r['id']} goal={cex.get('label')} inputs={json.dumps(cex.get('inputs'), default=str)[:400]}")
        for n in r.get("notes", [])[-2:]:
            print("  note:", str(n)[:400])
    for r in errors:
        print(f"HARNESS-ERROR property={pid} obligation={r['id']}: {' | '.join(str(n) for n in r.get('notes', []))[-1500:]}")

    write_evidence(mod, pid, tier, seed, results, violations, known_hits, errors, time.time() - t0)
    n_h = sum(r["status"] == "holds" for r in results)
    n_i = sum(r["status"] == "inconclusive" for r in results)
    print(f"[{pid}] obligations={len(results)} holds={n_h} inconclusive={n_i} known={len(known_hits)} "
          f"violations={len(violations)} errors={len(errors)} wall={time.time() - t0:.1f}s")
    if violations:
        return 1
    if errors:
        return 3
    return 0


def write_evidence(mod, pid, tier, seed, results, violations, known_hits, errors, wall):
    level = getattr(mod, "LEVEL", "other")
    n = len(results)
    holds = [r for r in results if r["status"] == "holds"]
    encoded = {}
    models = set()
    for r in results:
        for f in r.get("encoded", []):
            encoded[f.get("function")] = f
        for m in r.get("models", []):
            models.add(m)
    paths = sum(r.get("paths", 0) or 0 for r in results)
    vcs = sum(r.get("vcs", 0) or 0 for r in results)
    samples = []
    for r in results[:400]:
        s = {"obligation": r["id"], "desc": r.get("desc", ""), "status": r["status"], "bounds": r.get("bounds"),
             "paths": r.get("paths"), "vcs": r.get("vcs"), "vcs_unsat": r.get("vcs_unsat"),
             "twin": r.get("twin"), "wall_s": r.get("wall_s")}
        if r.get("ground"):
            s["ground_cases"] = r.get("cases")
        if r["status"] in ("inconclusive", "error"):
            s["notes"] = [str(x)[:300] for x in r.get("notes", [])[:3]]
        samples.append(s)
    vc_sample = next((r.get("sample_vc") for r in results if r.get("sample_vc")), None)
    nontrivial = sum(1 for r in holds if (r.get("vcs_unsat", 0) or 0) > 0 or r.get("ground") or (r.get("paths") or 0) >= 2)
    counters = {}
    for r in results:
        for k, v in (r.get("counters") or {}).items():
            counters[k] = counters.get(k, 0) + v
    cov = {
        "explanation": getattr(mod, "EXPLANATION", ""),
        "obligations": n,
        "discharged": len(holds),
        "inconclusive": sum(r["status"] == "inconclusive" for r in results),
        "known_findings_hit": [k["what"] for k, _ in known_hits],
        "evaluations": paths + sum((r.get("cases") or 0) for r in results if r.get("ground")),
        "distinct_nontrivial": nontrivial,
        "rule": "evaluations = symbolic paths explored (each a distinct branch history of the real code, "
                "decided for all input values by z3) plus ground cases; distinct_nontrivial = obligations "
                "whose verdict is 'holds' with at least one non-trivial (solver-discharged, unsat) VC, "
                "or at least two feasible branch histories enumerated by the solver and all checked, "
                "or a passing ground check",
        **counters,
        "paths": paths,
        "vcs": vcs,
        "vcs_unsat": sum(r.get("vcs_unsat", 0) or 0 for r in results),
        "vcs_trivial": sum(r.get("vcs_trivial", 0) or 0 for r in results),
        "solver_s": round(sum(r.get("solver_s", 0) or 0 for r in results), 3),
        "twins_failed_as_expected": sum(1 for r in results if r.get("twin") == "violation"),
        "functions_encoded": sorted(encoded.values(), key=lambda f: str(f.get("function"))),
        "samples": samples,
        "sample_vc_smt2": vc_sample,
        "cvc5_queries": sum(r.get("cvc5_queries", 0) or 0 for r in results),
        "trusted_base": ["CrossHair 0.0.110 opcode-level symbolic execution", "z3 " + _z3ver(),
                         "cvc5 binary on PATH (second opinion for verification conditions z3 answers `unknown`; its `unsat` is accepted, its models are replayed like z3's)",
                         "environment models listed under assumptions"],
        "checker_cmd": f"./verif check {pid} --tier {tier}",
        "exhaustive": False,
    }
    ev = {
        "property_id": pid,
        "tier": tier,
        "seed": seed,
        "level": level,
        "coverage": cov,
        "assumptions": sorted(models) + list(getattr(mod, "ASSUMPTIONS", [])),
        "wall_s": round(wall, 2),
        "violations": len(violations),
    }
    os.makedirs(os.path.join(VERIF, "evidence"), exist_ok=True)
    json.dump(ev, open(os.path.join(VERIF, "evidence", f"{pid}.json"), "w"), indent=1, default=str)


def _z3ver():
    try:
        import z3

        return z3.get_version_string()
    except Exception:
        return "?"
