import argparse
import json
import os
import sys

VERIF = os.path.dirname(os.path.dirname(os.path.abspath(__file__)))
sys.path.insert(0, VERIF)

MODULES = {f"C{i:02d}": None for i in range(1, 21)}


def find_module(pid):
    import glob

    hits = glob.glob(os.path.join(VERIF, "harness", pid.lower() + "_*.py"))
    if not hits:
        raise SystemExit(f"no harness for {pid}")
    return "harness." + os.path.basename(hits[0])[:-3]


def main():
    ap = argparse.ArgumentParser()
    sub = ap.add_subparsers(dest="cmd", required=True)
    c = sub.add_parser("check")
    c.add_argument("pid")
    c.add_argument("--tier", default=os.environ.get("VERIF_TIER", "quick"))
    c.add_argument("--only", default=None)
    c.add_argument("--jobs", type=int, default=int(os.environ.get("VERIF_JOBS", "16")))
    r = sub.add_parser("replay")
    r.add_argument("path")
    a = ap.parse_args()
    seed = int(os.environ.get("VERIF_SEED", "0") or 0)
    if a.cmd == "check":
        from symx import runner

        tier = a.tier if a.tier in ("quick", "thorough") else "quick"
        sys.exit(runner.run_property(find_module(a.pid), tier, seed, a.jobs, a.only))
    else:
        from symx import engine as E
        import importlib

        rec = json.load(open(a.path))
        mod = importlib.import_module(rec["module"])
        ob = {o.id: o for o in mod.obligations(rec.get("tier", "quick"), rec.get("seed", 0))}[rec["obligation"]]
        cex = rec["counterexample"]
        if ob.setup:
            ob.setup()
        if ob.ground is not None:
            ok, detail, _ = ob.ground()
            print("ground check:", "holds" if ok else "FAILS", detail)
            sys.exit(0 if ok else 1)
        ok, detail = E.replay(ob.harness, cex.get("inputs") or {})
        print(f"harness replay of {rec['obligation']} goal={cex.get('label')}: "
              f"{'REPRODUCED' if ok else 'not reproduced'} - {detail}")
        if ob.system_replay is not None:
            ok2, d2 = ob.system_replay(cex)
            print(f"system replay: {'REPRODUCED' if ok2 else 'not reproduced'} - {d2}")
            ok = ok and ok2
        sys.exit(1 if ok else 0)


if __name__ == "__main__":
    main()
