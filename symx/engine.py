"""symx engine: own exploration loop over CrossHair's state space.

A *harness* is a Python callable ``h(ctx)``.  Under ``explore`` it is executed
repeatedly with CrossHair tracing enabled; every execution follows one path of
the real code, branches on symbolic values being decided by z3 and recorded in
a persistent path tree, until the tree is exhausted.  ``ctx`` creates symbolic
inputs, records assumptions (asserted into the path solver, no fork) and
discharges verification conditions: the path's assertions plus the negated
goal are copied into a *fresh* z3 solver.

Verdict of an obligation:
  holds        - path tree exhausted, every VC unsat, no path unknown
  violation    - a VC is sat and the model replays concretely (harness run
                 again without CrossHair on the model's values gives goal False)
  inconclusive - anything else (timeouts, unknown, unexplored paths, path cap)
  error        - a sat model that does not replay, or a harness exception
"""
from __future__ import annotations

import fractions
import math
import os
import sys
import time
import traceback
from dataclasses import dataclass, field
from time import process_time
from typing import Any, Callable, Dict, List, Optional

import z3

import crosshair.core_and_libs  # noqa: F401  (registers patches)
from crosshair.core import Patched, _PATCH_REGISTRATIONS, deep_realize, realize
from crosshair.libimpl.builtinslib import (
    RealBasedSymbolicFloat,
    SymbolicBool,
    SymbolicInt,
)
from crosshair.statespace import (
    CallAnalysis,
    RootNode,
    StateSpace,
    StateSpaceContext,
    VerificationStatus,
)
from crosshair.tracers import COMPOSITE_TRACER, NoTracing, ResumedTracing, is_tracing
from crosshair.util import (
    CrossHairInternal,
    CrosshairUnsupported,
    IgnoreAttempt,
    NotDeterministic,
    UnexploredPath,
)


def _tb_tail(n=6):
    import traceback as _t
    fr = _t.extract_tb(sys.exc_info()[2])
    keep = [f for f in fr if "crosshair" not in f.filename and "symx/engine" not in f.filename][-n:]
    return " @ " + " <- ".join(f"{os.path.basename(f.filename)}:{f.lineno}" for f in reversed(keep))


class Discard(BaseException):
    """Path discarded by an assumption (BaseException: real code must not catch it)."""


class ReplayMismatch(Exception):
    pass


class HarnessBug(Exception):
    pass


def z3val_to_py(v):
    if z3.is_int_value(v):
        return v.as_long()
    if z3.is_rational_value(v):
        return fractions.Fraction(v.numerator_as_long(), v.denominator_as_long())
    if z3.is_algebraic_value(v):
        a = v.approx(20)
        return fractions.Fraction(a.numerator_as_long(), a.denominator_as_long())
    if z3.is_true(v):
        return True
    if z3.is_false(v):
        return False
    return str(v)


def describe(v, depth=0):
    """Safe rendering of possibly-symbolic values (never calls str()/repr() on CrossHair proxies)."""
    with NoTracing():
        var = getattr(v, "var", None)
        if isinstance(var, z3.ExprRef):
            t = str(var).replace("\n", " ")
            return t[:160]
        if isinstance(v, (int, float, bool, str)) or v is None:
            return v
        if isinstance(v, fractions.Fraction):
            return float(v)
        if isinstance(v, dict) and depth < 4:
            return {str(k): describe(x, depth + 1) for k, x in v.items()}
        if isinstance(v, (list, tuple)) and depth < 4:
            return [describe(x, depth + 1) for x in v]
        try:
            return type(v).__name__
        except Exception:
            return "?"


def _jsonable(v):
    if isinstance(v, fractions.Fraction):
        return float(v) if v.denominator != 1 else int(v)
    if isinstance(v, (int, float, bool, str)) or v is None:
        return v
    if isinstance(v, dict):
        return {str(k): _jsonable(x) for k, x in v.items()}
    if isinstance(v, (list, tuple)):
        return [_jsonable(x) for x in v]
    return repr(v)


@dataclass
class VC:
    label: str
    status: str  # unsat | sat | unknown | trivial | false
    seconds: float
    model: Optional[dict] = None
    info: Optional[dict] = None


@dataclass
class Result:
    name: str
    status: str = "inconclusive"
    paths: int = 0
    discarded: int = 0
    unknown_paths: int = 0
    exhausted: bool = False
    vcs: int = 0
    vcs_unsat: int = 0
    vcs_trivial: int = 0
    vcs_unknown: int = 0
    solver_s: float = 0.0
    wall_s: float = 0.0
    counterexample: Optional[dict] = None
    counterexamples: List[dict] = field(default_factory=list)
    replayed: Optional[bool] = None
    notes: List[str] = field(default_factory=list)
    sample_vc: Optional[str] = None
    goals_reached: int = 0

    def to_json(self):
        d = dict(self.__dict__)
        d["counterexample"] = _jsonable(self.counterexample)
        d["counterexamples"] = _jsonable(self.counterexamples)
        return d


class SymCtx:
    """Context handed to a harness during symbolic exploration."""

    symbolic = True

    def __init__(self, space: StateSpace, result: Result, vc_timeout_ms: int, twin: bool):
        self.space = space
        self.result = result
        self.vc_timeout_ms = vc_timeout_ms
        self.twin = twin  # reachability twin: every goal replaced by False
        self.inputs: Dict[str, Any] = {}
        self._counts: Dict[str, int] = {}
        self.path_vcs: List[VC] = []
        self.violations: List[VC] = []
        self.log: List[Any] = []

    # ---- naming
    def _name(self, base: str) -> str:
        n = self._counts.get(base, 0) + 1
        self._counts[base] = n
        return base if n == 1 else f"{base}#{n}"

    # ---- symbolic inputs
    def int(self, name: str, lo: Optional[int] = None, hi: Optional[int] = None):
        with NoTracing():
            nm = self._name(name)
            v = SymbolicInt(nm + "!" + self.space.uniq(), int)
            self.inputs[nm] = v.var
            if lo is not None:
                self.space.add(v.var >= _smt(lo))
            if hi is not None:
                self.space.add(v.var <= _smt(hi))
            return v

    def bool(self, name: str):
        with NoTracing():
            nm = self._name(name)
            v = SymbolicBool(nm + "!" + self.space.uniq(), bool)
            self.inputs[nm] = v.var
            return v

    def real(self, name: str, lo=None, hi=None):
        with NoTracing():
            nm = self._name(name)
            v = RealBasedSymbolicFloat(nm + "!" + self.space.uniq(), float)
            self.inputs[nm] = v.var
            if lo is not None:
                self.space.add(v.var >= _smt(lo, real=True))
            if hi is not None:
                self.space.add(v.var <= _smt(hi, real=True))
            return v

    def choice(self, name: str, options):
        """Symbolic index into a finite list, decided by forking (one path per option)."""
        options = list(options)
        if len(options) == 1:
            return options[0]
        idx = self.int(name, 0, len(options) - 1)
        for i in range(len(options) - 1):
            if idx == i:
                return options[i]
        return options[-1]

    def flag(self, name: str) -> bool:
        """Symbolic Boolean realised by forking (concrete True/False on each path)."""
        return True if self.bool(name) else False

    # ---- assumptions
    def assume(self, cond) -> None:
        with NoTracing():
            var = getattr(cond, "var", None)
            if var is None:
                if not cond:
                    raise Discard()
                return
            self.space.add(var)
            self.space.solver.set("timeout", FIRST_TIMEOUT_MS)
            r = self.space.solver.check()
            if r == z3.unknown:
                s = z3.Solver()
                s.set("timeout", FALLBACK_TIMEOUT_MS)
                s.add(*self.space.solver.assertions())
                r = s.check()
            if r == z3.unsat:
                raise Discard()
            # unknown: continue; if the path is in fact infeasible its VCs hold vacuously, which is
            # sound (no input follows it); the reachability twin guards against an all-vacuous harness.

    # ---- verification conditions
    def check(self, label: str, goal, robust=None, **info) -> bool:
        """Discharge `goal` on this path.  `robust`, if given, is a (stronger)
        symbolic statement of *violation by a margin*, used to extract the
        counterexample; holds-verdicts always come from the exact goal."""
        with NoTracing():
            info = {k: describe(x) for k, x in info.items()}
            self.result.goals_reached += 1
            if self.twin:
                goal, robust = False, None
            var = getattr(goal, "var", None)
            t0 = time.time()
            if var is None:
                ok = bool(goal)
                if ok:
                    vc = VC(label, "trivial", 0.0, info=info)
                else:
                    # the path itself is the counterexample: any model of the path
                    m = self._model(self.space.solver.assertions(), None)
                    vc = VC(label, "sat" if m is not None else "unknown", time.time() - t0, m, info)
            else:
                asserts = list(self.space.solver.assertions())
                st, m = self._solve(asserts, z3.Not(var))
                if st == "sat" and robust is not None:
                    rvar = getattr(robust, "var", None)
                    if rvar is None:
                        if not robust:
                            st, m = "unknown", None
                    else:
                        st2, m2 = self._solve(asserts, rvar)
                        if st2 == "sat":
                            m = m2
                        else:
                            st, m = "unknown", None
                            self.result.notes.append(
                                f"{label}: exact goal refutable only below tolerance ({st2})")
                vc = VC(label, st, time.time() - t0, m, info)
                if self.result.sample_vc is None:
                    try:
                        s = z3.Solver()
                        s.add(*asserts)
                        s.add(z3.Not(var))
                        txt = s.sexpr()
                        self.result.sample_vc = txt[:1500]
                    except Exception:
                        pass
            self.path_vcs.append(vc)
            self.result.vcs += 1
            self.result.solver_s += vc.seconds
            if vc.status == "unsat":
                self.result.vcs_unsat += 1
            elif vc.status == "trivial":
                self.result.vcs_trivial += 1
            elif vc.status == "unknown":
                self.result.vcs_unknown += 1
                if len(self.result.notes) < 20:
                    self.result.notes.append(f"VC unknown: {label}")
            elif vc.status == "sat":
                self.violations.append(vc)
            return vc.status in ("unsat", "trivial")

    def _solve(self, asserts, extra):
        s = z3.Solver()
        s.set("timeout", self.vc_timeout_ms)
        s.add(*asserts)
        if extra is not None:
            s.add(extra)
        r = s.check()
        if r == z3.unsat:
            return "unsat", None
        if r == z3.sat:
            return "sat", self._extract(s.model())
        return self._solve_cvc5(s)

    def _solve_cvc5(self, s):
        """Second opinion when z3 answers unknown: the same query, as SMT-LIB2 text, through the cvc5 binary.
        unsat is accepted as is; a model is only a candidate (every counterexample is replayed concretely)."""
        import re
        import shutil
        import subprocess
        import tempfile

        exe = shutil.which("cvc5")
        if exe is None:
            return "unknown", None
        text = s.to_smt2()
        names = {nm: var.decl().name() for nm, var in self.inputs.items()}
        text = text.replace("(check-sat)", "(check-sat)\n(get-model)")
        try:
            with tempfile.NamedTemporaryFile("w", suffix=".smt2", delete=False) as f:
                f.write("(set-option :produce-models true)\n" + text)
                path = f.name
            budget = max(20.0, 3 * self.vc_timeout_ms / 1000.0)
            out = subprocess.run([exe, f"--tlimit={int(budget * 1000)}", path], capture_output=True, text=True, timeout=budget + 10).stdout
        except Exception:
            return "unknown", None
        finally:
            try:
                os.unlink(path)
            except Exception:
                pass
        lines = out.strip().splitlines()
        first = lines[0].strip() if lines else ""
        self.result.cvc5_queries = getattr(self.result, "cvc5_queries", 0) + 1
        if first == "unsat":
            # (the only later output is the complaint of (get-model) that there is no model)
            if any("(error" in l and "model" not in l.lower() for l in lines[1:]):
                return "unknown", None
            return "unsat", None
        if first != "sat" or "(error" in out:
            return "unknown", None
        model = {}

        def val(txt):
            txt = txt.strip()
            if txt in ("true", "false"):
                return txt == "true"
            m = re.fullmatch(r"\(- (.*)\)", txt)
            if m:
                v = val(m.group(1))
                return None if v is None else -v
            m = re.fullmatch(r"\(/ (\S+) (\S+)\)", txt)
            if m:
                from fractions import Fraction

                return float(Fraction(int(float(m.group(1))), int(float(m.group(2)))))
            try:
                return int(txt)
            except ValueError:
                try:
                    return float(txt)
                except ValueError:
                    return None

        for nm, z3name in names.items():
            m = re.search(r"\(define-fun \|?" + re.escape(z3name) + r"\|? \(\) \w+ (.*)\)\s*$", out, re.M)
            v = val(m.group(1)) if m else None
            if v is None:
                return "unknown", None
            model[nm] = v
        return "sat", model

    def _model(self, asserts, extra):
        st, m = self._solve(list(asserts), extra)
        return m if st == "sat" else None

    def _extract(self, model):
        out = {}
        for nm, var in self.inputs.items():
            out[nm] = z3val_to_py(model.evaluate(var, model_completion=True))
        return out

    # ---- helpers usable in both modes
    def eq(self, a, b):
        return a == b

    def check_eq(self, label, a, b, tol=1e-6, **info):
        d = a - b
        return self.check(label, d == 0, robust=_or(d > tol, d < -tol), **info)

    def note(self, *a):
        with NoTracing():
            self.log.append(a)


def _or(a, b):
    with NoTracing():
        av, bv = getattr(a, "var", None), getattr(b, "var", None)
        if av is None and bv is None:
            return bool(a) or bool(b)
        if av is None:
            return True if a else b
        if bv is None:
            return True if b else a
        return SymbolicBool(z3.Or(av, bv))


def sym_or(*xs):
    r = False
    for x in xs:
        r = _or(r, x)
    return r


def sym_and(*xs):
    with NoTracing():
        vs = []
        for x in xs:
            v = getattr(x, "var", None)
            if v is None:
                if not x:
                    return False
            else:
                vs.append(v)
        if not vs:
            return True
        return SymbolicBool(z3.And(*vs))


def sym_not(x):
    with NoTracing():
        v = getattr(x, "var", None)
        if v is None:
            return not x
        return SymbolicBool(z3.Not(v))


def sym_implies(a, b):
    return sym_or(sym_not(a), b)


def sym_ite(c, a, b):
    """If-then-else on numeric symbolic values without forking."""
    with NoTracing():
        cv = getattr(c, "var", None)
        if cv is None:
            return a if c else b
        av = _smt(a, real=True)
        bv = _smt(b, real=True)
        if av.sort() != bv.sort():
            av = z3.ToReal(av) if av.sort() == z3.IntSort() else av
            bv = z3.ToReal(bv) if bv.sort() == z3.IntSort() else bv
        e = z3.If(cv, av, bv)
        if e.sort() == z3.IntSort():
            return SymbolicInt(e)
        return RealBasedSymbolicFloat(e)


def _smt(x, real=False):
    v = getattr(x, "var", None)
    if v is not None:
        return v
    if isinstance(x, bool):
        return z3.BoolVal(x)
    if isinstance(x, int) and not real:
        return z3.IntVal(x)
    if isinstance(x, int):
        return z3.RealVal(x)
    if isinstance(x, fractions.Fraction):
        return z3.RealVal(f"{x.numerator}/{x.denominator}")
    if isinstance(x, float):
        fr = fractions.Fraction(x)
        return z3.RealVal(f"{fr.numerator}/{fr.denominator}")
    raise HarnessBug(f"cannot convert {type(x)} to SMT")


def is_symbolic(x) -> bool:
    return hasattr(x, "var") and isinstance(getattr(x, "var"), z3.ExprRef)


class ConcreteCtx:
    """Replay context: same harness, concrete values from a solver model, no CrossHair."""

    symbolic = False
    twin = False

    def __init__(self, values: dict, real_as=float):
        self.values = dict(values)
        self._counts: Dict[str, int] = {}
        self.failed: List[str] = []
        self.passed: List[str] = []
        self.real_as = real_as
        self.log: List[Any] = []
        self.missing: List[str] = []

    def _name(self, base):
        n = self._counts.get(base, 0) + 1
        self._counts[base] = n
        return base if n == 1 else f"{base}#{n}"

    def _get(self, nm, default):
        if nm in self.values:
            return self.values[nm]
        self.missing.append(nm)
        return default

    def int(self, name, lo=None, hi=None):
        v = self._get(self._name(name), lo if lo is not None else (hi if hi is not None else 0))
        return int(v)

    def bool(self, name):
        return bool(self._get(self._name(name), False))

    def real(self, name, lo=None, hi=None):
        v = self._get(self._name(name), lo if lo is not None else (hi if hi is not None else 0))
        if isinstance(v, str):
            v = float(v.rstrip("?"))
        return self.real_as(v)

    def choice(self, name, options):
        options = list(options)
        if len(options) == 1:
            return options[0]
        return options[self.int(name, 0, len(options) - 1)]

    def flag(self, name):
        return self.bool(name)

    def assume(self, cond):
        # Inputs come from a solver model that satisfies every assumption exactly over the reals;
        # after conversion to floats, exact equalities (c*c + s*s == 1, h*h == x) fail by rounding.
        # They are therefore only recorded, not enforced, in concrete replay.
        if not cond:
            self.log.append(("assumption-not-exact-in-floats",))

    def check(self, label, goal, robust=None, **info):
        ok = bool(goal)
        if not ok and robust is not None and not bool(robust):
            ok = True  # violated only below tolerance: not a reproduction
        (self.passed if ok else self.failed).append(label)
        return ok

    def eq(self, a, b):
        return a == b

    def check_eq(self, label, a, b, tol=1e-6, **info):
        d = a - b
        return self.check(label, abs(d) <= tol / 10, robust=(d > tol / 2 or d < -tol / 2), **info)

    def note(self, *a):
        self.log.append(a)


def replay(harness: Callable, values: dict):
    """Run the harness concretely on a model; returns (reproduced, detail)."""
    ctx = ConcreteCtx(values)
    try:
        harness(ctx)
    except ReplayMismatch as e:
        return False, f"replay mismatch: {e}"
    except Discard:
        return False, "replay hit a discarded path"
    except Exception as e:  # real code raised: the harness should have caught expected ones
        return True, f"exception in replay: {type(e).__name__}: {e}"
    if ctx.failed:
        return True, "goals false in concrete replay: " + ", ".join(ctx.failed[:5])
    return False, "all goals true in concrete replay"


def explore(
    harness: Callable,
    name: str,
    *,
    per_path_timeout: float = 30.0,
    total_timeout: float = 120.0,
    vc_timeout: float = 10.0,
    max_paths: int = 100000,
    twin: bool = False,
    stop_on_violation: bool = True,
    do_replay: bool = True,
    patches: Optional[dict] = None,
) -> Result:
    res = Result(name=name)
    t_start = time.time()
    root = RootNode()
    exhausted = False
    saved = dict(_PATCH_REGISTRATIONS)
    if patches:
        _PATCH_REGISTRATIONS.update(patches)
    try:
        return _explore(harness, res, t_start, root, per_path_timeout, total_timeout, vc_timeout,
                        max_paths, twin, stop_on_violation, do_replay)
    finally:
        _PATCH_REGISTRATIONS.clear()
        _PATCH_REGISTRATIONS.update(saved)


def _explore(harness, res, t_start, root, per_path_timeout, total_timeout, vc_timeout, max_paths,
             twin, stop_on_violation, do_replay):
    exhausted = False
    seen_labels = set()
    exc_candidates = []
    with Patched():
        for it in range(max_paths):
            if time.time() - t_start > total_timeout:
                res.notes.append("total timeout")
                break
            start = process_time()
            space = StateSpace(start + per_path_timeout, per_path_timeout / 2, root)
            ctx = SymCtx(space, res, int(vc_timeout * 1000), twin)
            status = VerificationStatus.CONFIRMED
            try:
                with StateSpaceContext(space), COMPOSITE_TRACER, NoTracing():
                    try:
                        with ResumedTracing():
                            harness(ctx)
                    except Discard:
                        res.discarded += 1
                        status = None
                    except IgnoreAttempt:
                        res.discarded += 1
                        status = None
                    except (UnexploredPath, CrosshairUnsupported) as e:
                        res.unknown_paths += 1
                        res.notes.append(f"unexplored: {type(e).__name__} {e}"[:200] + _tb_tail())
                        status = VerificationStatus.UNKNOWN
                    except NotDeterministic:
                        raise
                    except CrossHairInternal as e:
                        res.unknown_paths += 1
                        res.notes.append(f"crosshair internal: {e}"[:300])
                        status = VerificationStatus.UNKNOWN
                    except Exception as e:
                        # Unexpected exception out of the code under test: a candidate violation
                        # ("never fails in any other way"), kept only if it also occurs in the
                        # concrete replay of a model of this path; otherwise the path is inconclusive.
                        tb = traceback.format_exc()
                        etype = type(e).__name__
                        try:
                            emsg = str(e)[:200]
                        except BaseException:
                            emsg = "?"
                        res.unknown_paths += 1
                        res.notes.append(f"harness exception: {etype}: {emsg}\n{tb[-1500:]}")
                        status = VerificationStatus.UNKNOWN
                        m = ctx._model(space.solver.assertions(), None)
                        if m is not None and not twin:
                            exc_candidates.append({"label": f"unexpected-exception:{etype}", "inputs": m,
                                                   "info": {"exception": f"{etype}: {emsg}", "where": _tb_tail()}})
                    if any(vc.status == "unknown" for vc in ctx.path_vcs):
                        status = VerificationStatus.UNKNOWN
                    ca = CallAnalysis(status) if status is not None else CallAnalysis()
                    _top, exhausted = space.bubble_status(ca)
            except NotDeterministic:
                res.notes.append("NotDeterministic: " + traceback.format_exc()[-800:])
                res.unknown_paths += 1
                break
            res.paths += 1
            for vc in ctx.violations:
                if vc.label not in seen_labels:
                    seen_labels.add(vc.label)
                    res.counterexamples.append({
                        "label": vc.label,
                        "inputs": vc.model,
                        "info": _jsonable(vc.info),
                    })
            if res.counterexamples and stop_on_violation:
                break
            if exhausted:
                break
    res.exhausted = bool(exhausted)
    res.wall_s = round(time.time() - t_start, 3)
    for cand in exc_candidates[:3]:
        if cand["label"] in seen_labels:
            continue
        try:
            ok, detail = replay(harness, cand["inputs"] or {})
        except BaseException as e:  # noqa
            ok, detail = False, f"replay crashed: {type(e).__name__}"
        if ok and detail.startswith("exception in replay: " + cand["label"].split(":", 1)[1]):
            seen_labels.add(cand["label"])
            res.counterexamples.append(cand)
    if res.counterexamples:
        if twin or not do_replay:
            res.status = "violation"
        else:
            kept, bad = [], []
            for cex in res.counterexamples:
                try:
                    ok, detail = replay(harness, cex["inputs"] or {})
                except BaseException as e:  # noqa
                    ok, detail = False, f"replay crashed: {type(e).__name__}: {e}"
                cex["replay"] = detail
                (kept if ok else bad).append(cex)
            res.replayed = bool(kept) and not bad
            if bad:
                res.status = "error"
                res.notes.append("counterexample(s) did not replay: " +
                                 "; ".join(f"{c['label']}: {c['replay']}" for c in bad)[:600])
            else:
                res.status = "violation"
            res.counterexamples = kept + bad
        res.counterexample = res.counterexamples[0]
    elif res.exhausted and res.unknown_paths == 0 and res.vcs_unknown == 0:
        if res.goals_reached == 0:
            res.status = "error"
            res.notes.append("no goal reached on any path (vacuous)")
        else:
            res.status = "holds"
    else:
        res.status = "inconclusive"
    return res


# ---------------------------------------------------------------------------------------
# Branch feasibility: CrossHair's incremental 'smt'-tactic solver answers `unknown` on many
# nonlinear / div-mod queries that a fresh default solver decides at once.  Fall back to a
# fresh solver before giving up on a path.
import crosshair.statespace as _ss

_orig_solver_is_sat = _ss.solver_is_sat
FALLBACK_TIMEOUT_MS = int(os.environ.get("SYMX_BRANCH_TIMEOUT_MS", "8000"))
FIRST_TIMEOUT_MS = int(os.environ.get("SYMX_BRANCH_FIRST_MS", "1500"))
_branch_stats = {"fallbacks": 0, "fallback_unknown": 0}


def _solver_is_sat(solver, *exprs) -> bool:
    solver.set("timeout", FIRST_TIMEOUT_MS)
    ret = solver.check(*exprs)
    if ret == z3.unknown:
        if solver.reason_unknown() == "interrupted from keyboard":
            raise KeyboardInterrupt
        _branch_stats["fallbacks"] += 1
        s = z3.Solver()
        s.set("timeout", FALLBACK_TIMEOUT_MS)
        s.add(*solver.assertions())
        for e in exprs:
            s.add(e)
        ret = s.check()
        if ret == z3.unknown:
            _branch_stats["fallback_unknown"] += 1
            raise _ss.UnknownSatisfiability
    return ret == z3.sat


_ss.solver_is_sat = _solver_is_sat


# ---------------------------------------------------------------------------------------
# Base patches: keep ceil/floor/trunc/fabs symbolic instead of realising their argument.
def _mk_dunder(fn, dunder):
    def model(x):
        if is_symbolic(x) and hasattr(type(x), dunder):
            return getattr(x, dunder)()
        return fn(x)

    return model


def _fabs(x):
    if is_symbolic(x):
        return -x if x < 0 else x
    return math.fabs(x)


for _fn, _d in ((math.ceil, "__ceil__"), (math.floor, "__floor__"), (math.trunc, "__trunc__")):
    _PATCH_REGISTRATIONS[_fn] = _mk_dunder(_fn, _d)
_PATCH_REGISTRATIONS[math.fabs] = _fabs

# Floats are modelled as mathematical reals only (no fork into the IEEE representation).
import crosshair.libimpl.builtinslib as _bl

_bl._PYTYPE_TO_WRAPPER_TYPE[float] = ((RealBasedSymbolicFloat, 1.0),)


# hash(): CrossHair's patch insists on a Python-int-sized result and chokes on numpy/trimesh
# objects (uint64 hashes).  Library objects are hashed natively, outside tracing.
_ch_hash = _PATCH_REGISTRATIONS.get(hash)


def _hash(obj):
    mod = type(obj).__module__ or ""
    if mod.split(".")[0] in ("trimesh", "numpy", "shapely", "scipy", "fcl", "rtree"):
        with NoTracing():
            return int(type(obj).__hash__(obj)) & ((1 << 61) - 1)
    if _ch_hash is not None:
        return _ch_hash(obj)
    with NoTracing():
        return hash(obj)


_PATCH_REGISTRATIONS[hash] = _hash
