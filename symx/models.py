"""Environment models (stubs with stated contracts) used by the harnesses.

Every model here is part of the claim of the obligations using it and is listed in their
`models`.  Models work in both modes: under CrossHair tracing on symbolic values and in
concrete replay on ordinary Python values.
"""
from __future__ import annotations

import math
import struct as _struct

import z3
from crosshair.libimpl.builtinslib import RealBasedSymbolicFloat, SymbolicBool, SymbolicInt
from crosshair.tracers import NoTracing

from symx.engine import is_symbolic


# ------------------------------------------------------------------ byte streams
class FloatBytes:
    """Opaque 8-byte little-endian IEEE encoding of one float (model of struct '<d')."""

    __slots__ = ("value", "index")

    def __init__(self, value, index):
        self.value = value
        self.index = index

    def __repr__(self):
        return f"FloatBytes({self.value!r},{self.index})"


class ByteSeq(list):
    """A read result containing opaque float bytes (cannot be a real `bytes`)."""

    def __getitem__(self, i):
        r = list.__getitem__(self, i)
        return ByteSeq(r) if isinstance(i, slice) else r


class Stream:
    """Pure-Python stand-in for io.BytesIO over (possibly symbolic) byte values."""

    def __init__(self, data=()):
        self.buf = list(data)
        self.pos = 0

    def write(self, b):
        self.buf.extend(b)
        return len(b)

    def read(self, n=-1):
        if n is None or n < 0:
            n = len(self.buf) - self.pos
        out = self.buf[self.pos : self.pos + n]
        self.pos += len(out)
        if any(isinstance(x, FloatBytes) for x in out):  # opaque float blocks cannot live in a real `bytes`
            return ByteSeq(out)
        return bytes(out)  # (a symbolic bytes object when some byte values are symbolic)

    def peek(self, n=1):
        out = self.buf[self.pos : self.pos + n]
        if any(isinstance(x, FloatBytes) or is_symbolic(x) for x in out):
            return ByteSeq(out)  # only its emptiness is ever inspected (Serializer.atEnd)
        return bytes(out)

    def getvalue(self):
        return list(self.buf)

    def remaining(self):
        return len(self.buf) - self.pos


STRUCT_MODEL = (
    "struct.pack/unpack: '<H'/'<I' are little-endian unsigned integers; each '<d' is an opaque "
    "8-byte block that unpacks to the packed value iff all 8 bytes are intact and in order "
    "(otherwise to an arbitrary float); short buffers raise struct.error"
)


def make_struct_model(ctx):
    """Returns (pack, unpack) models bound to a harness context."""

    def pack(fmt, *vals):
        if fmt in ("<H", "<I"):
            n = 2 if fmt == "<H" else 4
            (v,) = vals
            if not (0 <= v < 256**n):
                raise _struct.error("out of range")
            return bytes([(v >> (8 * i)) & 0xFF for i in range(n)])
        if fmt.startswith("<") and set(fmt[1:]) == {"d"}:
            if len(vals) != len(fmt) - 1:
                raise _struct.error("wrong number of items")
            out = ByteSeq()
            for v in vals:
                fv = float(v) if not is_symbolic(v) else v
                out.extend(FloatBytes(fv, i) for i in range(8))
            return out
        raise NotImplementedError(fmt)

    def unpack(fmt, data):
        if fmt in ("<H", "<I"):
            n = 2 if fmt == "<H" else 4
            if len(data) != n:
                raise _struct.error(f"unpack requires a buffer of {n} bytes")
            v = 0
            for i in range(n):
                v = v + data[i] * (256**i)
            return (v,)
        if fmt.startswith("<") and set(fmt[1:]) == {"d"}:
            k = len(fmt) - 1
            if len(data) != 8 * k:
                raise _struct.error(f"unpack requires a buffer of {8 * k} bytes")
            out = []
            for j in range(k):
                chunk = list(data[8 * j : 8 * j + 8])
                first = chunk[0]
                intact = isinstance(first, FloatBytes) and all(
                    isinstance(c, FloatBytes) and c.value is first.value and c.index == i
                    for i, c in enumerate(chunk)
                )
                out.append(first.value if intact else ctx.real("corrupt_float"))
            return tuple(out)
        raise NotImplementedError(fmt)

    return pack, unpack


# ------------------------------------------------------------------ math over the reals
def real_sqrt(ctx, x, name="sqrt"):
    """sqrt model: fresh h with h >= 0 and h*h == x (exact over the reals)."""
    if not is_symbolic(x):
        with NoTracing():
            return math.sqrt(x)
    h = ctx.real(name)
    ctx.assume(h >= 0)
    ctx.assume(h * h == x)
    return h


def real_hypot(ctx, *xs):
    if not any(is_symbolic(x) for x in xs):
        with NoTracing():
            return math.hypot(*xs)
    s = 0
    for x in xs:
        s = s + x * x
    return real_sqrt(ctx, s, "hypot")


def real_abs(x):
    if is_symbolic(x):
        with NoTracing():
            return RealBasedSymbolicFloat(z3.If(x.var >= 0, x.var, -x.var))
    return abs(x)


def real_min(a, b):
    from symx.engine import sym_ite

    return sym_ite(a <= b, a, b)


def real_max(a, b):
    from symx.engine import sym_ite

    return sym_ite(a >= b, a, b)


class TrigTable:
    """(cos, sin) pairs: one pair of fresh reals with c^2+s^2=1 per syntactically equal argument."""

    MODEL = ("math.sin/cos(x): a pair (c,s) of reals with c*c+s*s=1, the same pair for "
             "syntactically equal arguments (functional consistency); sin(0)=0, cos(0)=1")

    def __init__(self, ctx):
        self.ctx = ctx
        self.table = []

    def _pair(self, x):
        if not is_symbolic(x):
            with NoTracing():
                return math.cos(x), math.sin(x)
        with NoTracing():
            for (k, c, s) in self.table:
                if z3.eq(z3.simplify(k), z3.simplify(x.var)):
                    return c, s
        c = self.ctx.real("cos")
        s = self.ctx.real("sin")
        self.ctx.assume(c * c + s * s == 1)
        with NoTracing():
            self.table.append((x.var, c, s))
        return c, s

    def cos(self, x):
        return self._pair(x)[0]

    def sin(self, x):
        return self._pair(x)[1]


class UF:
    """Uninterpreted function with functional consistency on symbolic-real arguments."""

    def __init__(self, ctx, name, concrete):
        self.ctx = ctx
        self.name = name
        self.concrete = concrete
        self.table = []

    def __call__(self, *args):
        if not any(is_symbolic(a) for a in args):
            with NoTracing():
                return self.concrete(*args)
        from symx.engine import _smt

        with NoTracing():
            key = [z3.simplify(_smt(a, real=True)) for a in args]
            for k, v in self.table:
                if all(z3.eq(a, b) for a, b in zip(k, key)):
                    return v
        v = self.ctx.real(self.name)
        # functional consistency with earlier applications (equal arguments -> equal results)
        with NoTracing():
            for k, pv in self.table:
                same = z3.And(*[a == b for a, b in zip(k, key)])
                self.ctx.space.add(z3.Implies(same, pv.var == v.var))
            self.table.append((key, v))
        return v


# ------------------------------------------------------------------ math patches bound to the current context
CURRENT = [None]


def bind(ctx):
    """Bind the environment models to the harness context of the current path."""
    CURRENT[0] = ctx
    _TRIG[0] = TrigTable(ctx)
    _UFS.clear()


_TRIG = [None]
_UFS = {}


def _uf(name, concrete):
    if name not in _UFS:
        _UFS[name] = UF(CURRENT[0], name, concrete)
    return _UFS[name]


def m_hypot(*xs):
    return real_hypot(CURRENT[0], *xs)


def m_sqrt(x):
    return real_sqrt(CURRENT[0], x)


def m_cos(x):
    return _TRIG[0].cos(x)


def m_sin(x):
    return _TRIG[0].sin(x)


def m_atan2(y, x):
    return _uf("atan2", math.atan2)(y, x)


def m_asin(x):
    return _uf("asin", math.asin)(x)


def m_acos(x):
    return _uf("acos", math.acos)(x)


MATH_MODELS = [
    "math.hypot/sqrt: fresh h >= 0 with h*h == sum of squares (exact over the reals)",
    TrigTable.MODEL,
    "math.atan2/asin/acos: uninterpreted functions (functional consistency only)",
]


def math_patches():
    return {math.hypot: m_hypot, math.sqrt: m_sqrt, math.cos: m_cos, math.sin: m_sin,
            math.atan2: m_atan2, math.asin: m_asin, math.acos: m_acos}


# ------------------------------------------------------------------ rotations and a tiny numpy stand-in
class PyVec(list):
    """Pure-Python stand-in for a short numpy vector (elementwise -, +, scalar * and /)."""

    def _zip(self, other):
        other = list(other)
        assert len(other) == len(self)
        return zip(self, other)

    def __sub__(self, other):
        return PyVec(a - b for a, b in self._zip(other))

    def __rsub__(self, other):
        return PyVec(b - a for a, b in self._zip(other))

    def __add__(self, other):
        return PyVec(a + b for a, b in self._zip(other))

    __radd__ = __add__

    def __mul__(self, k):
        return PyVec(a * k for a in self)

    __rmul__ = __mul__

    def __truediv__(self, k):
        return PyVec(a / k for a in self)

    def __neg__(self):
        return PyVec(-a for a in self)

    def __getitem__(self, i):
        r = list.__getitem__(self, i)
        return PyVec(r) if isinstance(i, slice) else r

    @property
    def coordinates(self):
        return tuple(self)


class SymRot:
    """A rotation as a 3x3 matrix of reals with orthonormal rows and columns and determinant 1.

    MODEL (stands for scipy Rotation): `apply(vs)` maps each row vector v to M v; `inv()` is the
    transpose."""

    MODEL = ("scipy Rotation: 3x3 real matrix M with orthonormal rows and columns, det M = 1; "
             "apply(v) = M v, inverse = transpose")

    def __init__(self, ctx=None, name="R", m=None, constrain=True):
        if m is None:
            m = [[ctx.real(f"{name}{i}{j}", -1, 1) for j in range(3)] for i in range(3)]
            if constrain:
                for i in range(3):
                    for j in range(i, 3):
                        want = 1 if i == j else 0
                        ctx.assume(sum(m[i][k] * m[j][k] for k in range(3)) == want)
                        ctx.assume(sum(m[k][i] * m[k][j] for k in range(3)) == want)
                det = (m[0][0] * (m[1][1] * m[2][2] - m[1][2] * m[2][1]) - m[0][1] * (m[1][0] * m[2][2] - m[1][2] * m[2][0])
                       + m[0][2] * (m[1][0] * m[2][1] - m[1][1] * m[2][0]))
                ctx.assume(det == 1)
        self.m = m

    @staticmethod
    def about_axis(ctx, axis, name="rot"):
        """Rotation by an arbitrary angle about one coordinate axis: (c, s) with c*c + s*s = 1."""
        c, s = ctx.real(name + ".cos", -1, 1), ctx.real(name + ".sin", -1, 1)
        ctx.assume(c * c + s * s == 1)
        if axis == "z":
            m = [[c, -s, 0], [s, c, 0], [0, 0, 1]]
        elif axis == "x":
            m = [[1, 0, 0], [0, c, -s], [0, s, c]]
        else:
            m = [[c, 0, s], [0, 1, 0], [-s, 0, c]]
        return SymRot(m=m)

    def mat_vec(self, v):
        v = list(v)
        return PyVec(sum(self.m[i][k] * v[k] for k in range(3)) for i in range(3))

    def apply(self, vs, inverse=False):
        r = self.inv() if inverse else self
        vs = list(vs)
        if vs and not isinstance(vs[0], (list, tuple)) and not hasattr(vs[0], "__len__"):
            return r.mat_vec(vs)
        return [r.mat_vec(v) for v in vs]

    def inv(self):
        return SymRot(m=[[self.m[j][i] for j in range(3)] for i in range(3)])

    def __mul__(self, other):
        return SymRot(m=[[sum(self.m[i][k] * other.m[k][j] for k in range(3)) for j in range(3)] for i in range(3)])

    @staticmethod
    def concrete(rot):
        """SymRot from a real scipy Rotation (concrete replay)."""
        return SymRot(m=[[float(x) for x in row] for row in rot.as_matrix()])


class NPShim:
    """Minimal stand-in for the numpy functions used by the point branch of visibility.canSee."""

    MODEL = ("numpy.array/linalg.norm/mod on 3-vectors as pure Python over the reals; numpy.arctan2 / arcsin: "
             "uninterpreted functions whose argument terms are logged")
    pi = math.pi

    def __init__(self, ctx):
        self.ctx = ctx
        self.calls = []
        shim = self

        class _L:
            @staticmethod
            def norm(v, axis=None):
                r = real_hypot(ctx, *list(v))
                shim.calls.append(("norm", list(v), r))
                return r

        self.linalg = _L()

    def array(self, x):
        x = list(x)
        if x and hasattr(x[0], "__len__"):
            return [PyVec(r) for r in x]
        return PyVec(x)

    def arctan2(self, y, x):
        r = _uf("arctan2", math.atan2)(y, x)
        self.calls.append(("arctan2", y, x, r))
        return r

    def arcsin(self, x):
        r = _uf("arcsin", math.asin)(x)
        self.calls.append(("arcsin", x, r))
        return r

    def mod(self, a, b):
        if not is_symbolic(a):
            return math.fmod(math.fmod(a, b) + b, b)
        q = a / b
        with NoTracing():
            fl = SymbolicInt(z3.ToInt(q.var))
        return a - b * fl
