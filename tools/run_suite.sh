#!/bin/bash
# Run the repository's pinned suite sharded by test file (14 parallel pytest processes) on the tree
# given as $1 (default /repo) and compare with BASELINE.json's stable_pass list.
R=${1:-/repo}
D=$(mktemp -d /tmp/suite.XXXXXX)
cd "$R" || exit 2
PYTHONPATH="$R/src" /venv/bin/python -c "from scenic.syntax import buildParser; r=buildParser(); raise SystemExit(r.returncode)" || { echo "parser generation failed"; exit 2; }
find tests -name 'test_*.py' | sort > $D/files
cat $D/files | PYTHONPATH="$R/src" xargs -P ${SUITE_JOBS:-14} -I{} sh -c \
  'f={}; o='$D'/$(echo $f | tr / _).xml; /venv/bin/python -m pytest -q -p no:cacheprovider --timeout=900 --continue-on-collection-errors --skip-pegen --junitxml=$o $f >$o.log 2>&1'
/venv/bin/python - $D <<'PY'
import json, sys, glob, xml.etree.ElementTree as ET
import re
def norm(n):
    m = re.match(r"(.*test_region_combinations)\[(\w+)-(\w+)\]$", n)
    if m: return m.group(1) + "[" + "-".join(sorted(m.group(2,3))) + "]"
    return n
base = set(norm(x) for x in json.load(open('/root/.vp/BASELINE.json'))['stable_pass'])
passed=set(); bad=set()
for f in glob.glob(sys.argv[1]+'/*.xml'):
    for tc in ET.parse(f).iter('testcase'):
        name = norm(tc.get('classname') + '::' + tc.get('name'))
        if any(c.tag in ('failure','error') for c in tc): bad.add(name)
        elif any(c.tag=='skipped' for c in tc): pass
        else: passed.add(name)
missing = sorted(base - passed)
print(f"baseline stable_pass={len(base)} passed_now={len(passed & base)} missing={len(missing)} failed={len(bad)}")
for m in missing[:30]: print("  NOT PASSING:", m)
sys.exit(1 if missing else 0)
PY
rc=$?; if [ -n "$KEEP" ]; then echo "logs in $D"; else rm -rf $D; fi; exit $rc
