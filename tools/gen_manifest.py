#!/usr/bin/env python3
"""Regenerate MANIFEST.json from harness modules' metadata (MANIFEST_ENTRY dicts) + not_applicable.json."""
import glob, importlib, json, os, re, sys
V = os.path.dirname(os.path.dirname(os.path.abspath(__file__)))
sys.path.insert(0, V)
checks = []
claimed = set()
for f in sorted(glob.glob(os.path.join(V, "harness", "c[0-9][0-9]_*.py"))):
    src = open(f).read()
    m = re.search(r"^MANIFEST_ENTRY\s*=\s*(\{.*?^\})", src, re.S | re.M)
    if not m:
        continue
    e = eval(m.group(1))
    pid = os.path.basename(f)[:3].upper()
    claimed.add(pid)
    checks.append({
        "property_id": pid,
        "quick_cmd": f"./verif check {pid} --tier quick",
        "thorough_cmd": f"./verif check {pid} --tier thorough",
        "evidence_file": f"/verif/evidence/{pid}.json",
        "replay_cmd_template": "./verif replay {path}",
        "engine": "symx",
        "level_claimed": {"category": e.get("category", "other"), "text": e["text"], "design_ref": e.get("design_ref", f"DESIGN.md section 4 ({pid})")},
        "level_note": e["note"],
        "technique": e.get("technique", "bounded symbolic execution of the real Python code (CrossHair state space) with per-path verification conditions decided by z3; counterexamples replayed concretely"),
    })
na = json.load(open(os.path.join(V, "not_applicable.json")))
man = {
    "version": 1,
    "setup_cmd": "./setup.sh",
    "hooks": {"guard": "SCENIC_VERIF", "enable": "no hooks: all instrumentation is applied from outside (CrossHair patches, namespace injection, subclasses)",
              "baseline_off_cmd": "cd /repo && /venv/bin/python -m pytest -ra -q -p no:cacheprovider --timeout=900 --continue-on-collection-errors",
              "source_commits": [], "add_only": True},
    "engines": [{"name": "symx", "path": "/verif/symx", "serves_properties": sorted(claimed),
                 "kind_free_text": "own exploration loop over CrossHair 0.0.110's state space (opcode-level symbolic execution of the real Scenic code), environment models with stated contracts, per-path VCs discharged by a fresh z3 5.1 solver, concrete replay of every counterexample"}],
    "checks": checks,
    "notes": "See DESIGN.md. Exit codes: 0 held (possibly KNOWN-FINDING lines), 1 new replayed violation, 3 harness error. Inconclusive obligations are counted in the evidence and never reported as success of that obligation.",
    "not_applicable": [x for x in na if x["property_id"] not in claimed],
}
json.dump(man, open(os.path.join(V, "MANIFEST.json"), "w"), indent=1)
print("claimed:", sorted(claimed), "not_applicable:", [x["property_id"] for x in man["not_applicable"]])
