#!/usr/bin/env python3
"""Regenerate the generated tables of DESIGN.md (between BEGIN/END markers) from seeded/*/meta.json,
seeded/first_run.json, MANIFEST.json and the evidence files."""
import glob, json, os, re

V = "/verif"
first = json.load(open(f"{V}/seeded/first_run.json")) if os.path.exists(f"{V}/seeded/first_run.json") else {}
rows = ["| property | change | what it breaks (needs) | confirmed | first run | now caught by | strengthening that was needed |", "|---|---|---|---|---|---|---|"]
tot = caught = 0
for meta in sorted(glob.glob(f"{V}/seeded/C*/m*/meta.json")):
    d = json.load(open(meta))
    pid, mk = d["property"], d["mutant"]
    desc = ""
    p = os.path.join(os.path.dirname(meta), "description.md")
    if os.path.exists(p):
        lines = [l.strip("# *-\t ") for l in open(p).read().splitlines() if l.strip()]
        desc = lines[0][:110] if lines else ""
    conf = d.get("confirmation", "")
    ok = "demo on clean: exit=0" in conf and "demo on mutant: exit=1" in conf and "missing=0" in conf
    by = []
    for c, r in d["checks"].items():
        if r["caught"]:
            obs = sorted({v.split(" :: ")[0] for v in r["violations"]})[:2] or r.get("harness_errors", [])[:1]
            by.append(f"{c}: " + ", ".join(o[:60] for o in obs))
    tot += 1
    caught += bool(by)
    fr = first.get(f"{pid}/{mk}", {})
    rows.append(f"| {pid} | {mk} | {desc} | {'yes (demo both ways, suite 1677/1677)' if ok else conf[:40] or 'pending'} | {fr.get('first', '')} | {'; '.join(by) or 'MISSED'} | {fr.get('note', '')} |")
rows.append("")
rows.append(f"{caught} of {tot} seeded changes are caught by the committed quick checks.")
seeded = "\n".join(rows)

man = json.load(open(f"{V}/MANIFEST.json"))
rows = ["| property | level | obligations (quick) | symbolic paths | VCs (unsat by z3 / trivial) | solver s | wall s | outside the claim (from the manifest note) |", "|---|---|---|---|---|---|---|---|"]
for chk in man["checks"]:
    pid = chk["property_id"]
    ev = f"{V}/evidence/{pid}.json"
    if not os.path.exists(ev):
        continue
    d = json.load(open(ev))
    c = d["coverage"]
    note = chk.get("level_note", "")
    m = re.search(r"Outside[^:]*: (.*)", note)
    rows.append(f"| {pid} | {d['level']} | {c.get('obligations')} ({c.get('discharged')} held, {len(c.get('known_findings_hit', []))} known) | {c.get('paths')} | {c.get('vcs_unsat')} / {c.get('vcs_trivial')} | {c.get('solver_s')} | {d['wall_s']:.0f} | {(m.group(1) if m else note)[:260]} |")
coverage = "\n".join(rows)

s = open(f"{V}/DESIGN.md").read()
for name, body in (("seeded", seeded), ("coverage", coverage)):
    s = re.sub(rf"<!-- BEGIN:{name} -->.*?<!-- END:{name} -->", lambda m: f"<!-- BEGIN:{name} -->\n{body}\n<!-- END:{name} -->", s, flags=re.S)
open(f"{V}/DESIGN.md", "w").write(s)
print("tables regenerated:", caught, "/", tot)
