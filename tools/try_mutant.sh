#!/bin/bash
# usage: try_mutant.sh <patch.diff> <Cxx> [extra verif args]   -- applies to /repo, runs the check, reverts
# (the evidence file of the property is saved and restored: evidence describes the unchanged tree only)
D=$1; P=$2; shift 2
mkdir -p /tmp/w
cd /repo && git apply --check "$D" || { echo "patch does not apply"; exit 2; }
git apply "$D"
[ -f /verif/evidence/$P.json ] && cp /verif/evidence/$P.json /tmp/w/evidence_$P.saved
cd /verif && ./verif check $P "$@" > /tmp/w/mut_$P.log 2>&1; rc=$?
git -C /repo checkout -- . ; git -C /repo status --short | head -3
[ -f /tmp/w/evidence_$P.saved ] && mv /tmp/w/evidence_$P.saved /verif/evidence/$P.json
echo "exit=$rc"; grep -E "^VIOLATION|^KNOWN|^HARNESS-ERROR|obligations=" /tmp/w/mut_$P.log | cut -c1-300 | head -12
