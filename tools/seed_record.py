#!/usr/bin/env python3
"""seed_record.py <id> <k> [check-id ...]: apply /tmp/mut/<id>.out/m<k>.diff to /repo, run the quick check(s)
(default: the property's own), revert, and store patch, demo, description and the outcome under /verif/seeded/<id>/m<k>/."""
import json, os, re, shutil, subprocess, sys

pid, k = sys.argv[1], sys.argv[2]
checks = sys.argv[3:] or [pid]
src = f"/tmp/mut/{pid}.out"
dst = f"/verif/seeded/{pid}/m{k}"
os.makedirs(dst, exist_ok=True)
diff = f"{src}/m{k}.diff"
if not os.path.exists(diff):  # scratch output already removed: re-run from the stored patch
    diff = f"{dst}/patch.diff"
r = subprocess.run(["git", "-C", "/repo", "apply", "--check", diff], capture_output=True, text=True)
if r.returncode:
    sys.exit(f"patch does not apply: {r.stderr}")
subprocess.run(["git", "-C", "/repo", "apply", diff], check=True)
results = {}
saved_evidence = {c: open(f"/verif/evidence/{c}.json").read() for c in checks if os.path.exists(f"/verif/evidence/{c}.json")}
try:
    for c in checks:
        p = subprocess.run(["/verif/verif", "check", c], capture_output=True, text=True)
        out = p.stdout + p.stderr
        vio = re.findall(r"VIOLATION property=\S+ replay=\S+\n\s+obligation=(.*?) goal=(.*?) inputs=", out)
        errs = re.findall(r"HARNESS-ERROR property=\S+ obligation=([^:]+):", out)
        results[c] = {"exit": p.returncode, "caught": p.returncode == 1,
                      "violations": sorted({f"{o} :: {g}" for o, g in vio})[:12], "harness_errors": sorted(set(errs))[:6],
                      "summary": out.strip().splitlines()[-1] if out.strip() else ""}
finally:
    subprocess.run(["git", "-C", "/repo", "checkout", "--", "."], check=True)
    for c, txt in saved_evidence.items():  # evidence files describe the unchanged tree only
        open(f"/verif/evidence/{c}.json", "w").write(txt)
if os.path.abspath(diff) != os.path.abspath(f"{dst}/patch.diff"):
    shutil.copy(diff, f"{dst}/patch.diff")
for ext in ("_demo.py", ".md"):
    if os.path.exists(f"{src}/m{k}{ext}"):
        shutil.copy(f"{src}/m{k}{ext}", f"{dst}/{'demo.py' if ext == '_demo.py' else 'description.md'}")
conf = ""
if os.path.exists("/tmp/mut/results.txt"):
    txt = open("/tmp/mut/results.txt").read()
    m = re.search(rf"=== {pid} m{k} [^\n]*\n(.*?)(?==== |\Z)", txt, re.S)
    conf = m.group(1).strip() if m else ""
meta = {"property": pid, "mutant": f"m{k}", "base_commit": subprocess.run(["git", "-C", "/repo", "rev-parse", "--short", "HEAD"], capture_output=True, text=True).stdout.strip(),
        "produced_by": "fresh sub-agent given only the property text and a scratch worktree",
        "what_it_needs_to_manifest": "see description.md",
        "confirmation": conf or (json.load(open(f"{dst}/meta.json")).get("confirmation") if os.path.exists(f"{dst}/meta.json") else None) or "pending (demo both ways + full suite)",
        "how_to_apply": "git -C /repo apply /verif/seeded/%s/m%s/patch.diff ; ./verif check %s ; git -C /repo checkout -- ." % (pid, k, pid),
        "checks": results}
json.dump(meta, open(f"{dst}/meta.json", "w"), indent=1)
print(pid, f"m{k}", {c: ("CAUGHT" if v["caught"] else f"missed(exit {v['exit']})") for c, v in results.items()})
