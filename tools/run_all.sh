#!/bin/bash
# run every property's check once (tier from $1, default quick); summary lines to stdout
tier=${1:-quick}
cd /verif
for i in $(seq -w 1 20); do
  s=$(date +%s)
  ./verif check C$i --tier $tier > /tmp/w/all_C$i.$tier.log 2>&1
  rc=$?
  echo "C$i rc=$rc $(( $(date +%s) - s ))s $(tail -1 /tmp/w/all_C$i.$tier.log | cut -c1-160)"
done
