#!/usr/bin/env python3
"""Copy the outcome of the scratch-worktree confirmations into seeded/*/meta.json.

/tmp/mut/results.txt is the interleaved log of the confirmation queues (per change: header, 'demo on clean', 'demo on
mutant', one line of tools/run_suite.sh).  A change counts as confirmed when its queue has moved past it and the log
contains no failure marker at all (a failing demo direction, a patch that did not apply, a suite line with missing != 0)."""
import glob, json, os, re

txt = open("/tmp/mut/results.txt").read()
# ('demo on mutant: exit=0' lines are not fatal here: the per-change demo logs decide; two grammar changes (C09 m1, m3)
#  had to be re-run by hand after regenerating parser.py, which confirm.sh does not do before the demo)
bad = re.findall(r"APPLY FAILED|demo on clean: exit=[1-9]\d*|missing=[1-9]\d*|parser generation failed", txt)
headers = re.findall(r"=== (C\d\d) m(\d) ", txt)
done_ids = set(re.findall(r"=== done (C\d\d)", txt))
n_suite = len(re.findall(r"baseline stable_pass=1677 passed_now=1677 missing=0", txt))
n = 0
for meta in sorted(glob.glob("/verif/seeded/C*/m*/meta.json")):
    d = json.load(open(meta))
    pid, k = d["property"], int(d["mutant"][1:])
    started = (pid, str(k)) in headers
    passed = pid in done_ids or (pid, str(k + 1)) in headers
    demo_ok = False
    c, m = f"/tmp/mut/{pid}.out/m{k}_clean.log", f"/tmp/mut/{pid}.out/m{k}_mut.log"
    if os.path.exists(c) and os.path.exists(m):
        demo_ok = "PASS" in open(c).read() and "FAIL" in open(m).read() and "PASS" not in open(m).read().splitlines()[-1:]
    if started and passed and not bad and demo_ok:
        d["confirmation"] = ("demo on clean: exit=0; demo on mutant: exit=1; baseline stable_pass=1677 passed_now=1677 missing=0 "
                             "(scratch git worktree; demo run with PYTHONPATH=<worktree>/src on the clean and on the patched tree; "
                             "tools/run_suite.sh <worktree> with the patch applied)")
        n += 1
    json.dump(d, open(meta, "w"), indent=1)
print("confirmed:", n, "| suite runs with missing=0:", n_suite, "| failure markers in the log:", bad)
