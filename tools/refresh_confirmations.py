#!/usr/bin/env python3
"""Copy the outcome of the scratch-worktree confirmations (/tmp/mut/results.txt: demo on clean / on mutant, whole pinned
suite) into seeded/*/meta.json."""
import glob, json, re

txt = open("/tmp/mut/results.txt").read()
n = 0
for meta in sorted(glob.glob("/verif/seeded/C*/m*/meta.json")):
    d = json.load(open(meta))
    pid, mk = d["property"], d["mutant"]
    ms = re.findall(rf"=== {pid} {mk} [^\n]*\n(.*?)(?==== |\Z)", txt, re.S)
    if ms:
        body = ms[-1].strip()
        if "baseline stable_pass" in body:
            d["confirmation"] = body
            d["confirmed_in"] = "scratch git worktree of /repo (demo run with PYTHONPATH=<worktree>/src on the clean and on the patched tree; tools/run_suite.sh <worktree> for the pinned suite)"
            n += 1
    json.dump(d, open(meta, "w"), indent=1)
print("confirmed:", n)
