#!/usr/bin/env python3
"""Validate MANIFEST.json and every evidence file against the schemas in /root/.vp (needs jsonschema: run with python3-vt)."""
import glob, json, sys
import jsonschema

ok = True
for path, schema in [("/verif/MANIFEST.json", "/root/.vp/MANIFEST.schema.json")] + [(p, "/root/.vp/EVIDENCE.schema.json") for p in sorted(glob.glob("/verif/evidence/*.json"))]:
    try:
        jsonschema.validate(json.load(open(path)), json.load(open(schema)))
        print("ok  ", path)
    except Exception as e:
        ok = False
        print("FAIL", path, str(e).splitlines()[0][:200])
sys.exit(0 if ok else 1)
