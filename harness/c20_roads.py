"""C20 - road networks are internally consistent for every map, cached or parsed (cache / lookup procedures)."""
import itertools

from symx import engine as E
from symx.runner import Obligation

PROPERTY = "C20"
PRELOAD = ["scenic.domains.driving.roads", "scenic.core.serialization"]
LEVEL = "other"
EXPLANATION = (
    "Only the procedures around the data are within reach of solver-based checking.  (a) Cache validity: "
    "Network.fromFile / fromPickle run symbolically with the file system, gzip and pickle replaced by models: "
    "the cache header (format version, map digest, options digest, each possibly truncated), the outcome of "
    "unpickling, the existence of the cache file and the useCache / writeCache flags are symbolic; z3 decides "
    "that a cached network is returned exactly when caching is requested, the file exists, the header is "
    "complete, the version is the current one, both digests equal the expected ones and unpickling succeeds; "
    "that every other case falls back to parsing the map; and that useCache=False never opens the cache.  "
    "(b) Point lookup: findPointIn with the R-tree answers as symbolic candidate sets: exact matches have "
    "priority over tolerant ones, among candidates the order of the element list decides, reject behaves as "
    "documented.  (c) The options digest pre-hash encoding distinguishes option mappings that differ in a "
    "value or a key, and a cache written under one option set (8 sets, including falsy values such as "
    "fill_intersections=False and tolerance=0) is used for a load under another only if they are equal; the "
    "lookup region of the tolerant pass lies within the tolerance of the point.  Consistency of the networks "
    "built from the shipped maps (containment, coverage, tangency, cached == parsed) is a statement about "
    "parsed data produced by numpy/shapely code and is NOT claimed; link reciprocity / ownership is checked "
    "concretely on three small maps as an auxiliary (non-solver) check."
)
MANIFEST_ENTRY = {
    "category": "other",
    "text": "Bounded symbolic checking of the cache-validity decision (all header contents, truncations, unpickling outcomes, flags) and of the point-lookup priority procedure over symbolic R-tree answers, plus distinctness of the options pre-hash encoding. The map-wide consistency statements of the property are not claimed.",
    "note": "Trusted: CrossHair, z3, models of open / gzip / pickle / pathlib (files as byte lists, unpickling as an arbitrary outcome), STRtree.query as arbitrary candidate sets. Outside (not claimed): link reciprocity, child-in-parent containment, drivable coverage, direction tangency, cached == parsed for the shipped maps.",
}
ASSUMPTIONS = ["pickle.load either returns the stored object or raises (UnpicklingError or any other exception)"]


def h_cache(ctx, mode="header"):
    import pickle as real_pickle

    import scenic.domains.driving.roads as R

    N = R.Network
    current = N._currentFormatVersion()
    map_bytes = b"<OpenDRIVE/>"
    import hashlib

    from scenic.core.serialization import deterministicHash

    true_digest = hashlib.blake2b(map_bytes).digest()
    # the cache was written under options A; the map is now loaded with options B (both chosen symbolically)
    OPTION_SETS = [{}, {"tolerance": 0.05}, {"tolerance": 0}, {"fill_intersections": False}, {"fill_intersections": True},
                   {"tolerance": 0.05, "fill_gaps": False}, {"tolerance": 0.05, "fill_gaps": True}, {"elide_short_roads": False}]
    if mode == "options":
        cached_under = ctx.choice("options_when_cached", OPTION_SETS)
        kwargs = dict(ctx.choice("options_now", OPTION_SETS))
    else:
        kwargs = {"tolerance": 0.05}
        cached_under = kwargs if ctx.flag("header.options_digest_matches") else {"tolerance": 0.05, "fill_gaps": False}
    true_opts = deterministicHash(kwargs, digest_size=8)
    cached_opts = deterministicHash(cached_under, digest_size=8)
    # ---- symbolic cache file
    exists = ctx.flag("cache_file_exists")
    use_cache = ctx.flag("useCache")
    write_cache = ctx.flag("writeCache")
    if mode == "options":
        version, vlen, digest_ok, dlen = current, 4, True, 64
    else:
        version = ctx.int("header.version", 0, 2**32 - 1)
        vlen = ctx.choice("header.version_bytes", [4, 3, 0])
        digest_ok = ctx.flag("header.map_digest_matches")
        dlen = ctx.choice("header.digest_bytes", [64, 63, 10])
    opts_ok = cached_under == kwargs
    olen = 8 if mode == "options" else ctx.choice("header.options_bytes", [8, 7, 0])
    unpickle = "ok" if mode == "options" else ctx.choice("unpickling", ["ok", "UnpicklingError", "EOFError", "AttributeError"])
    vbytes = [(version >> (8 * i)) & 0xFF for i in range(4)][:vlen]
    dg = list(true_digest if digest_ok else bytes(64 - 1) + b"\x01")[:dlen]
    og = list(cached_opts)[:olen]
    content = vbytes + dg + og + [0x1F, 0x8B]
    opened, parsed, dumped = [], [], []
    cached_net = object()
    fresh_net = type("Fresh", (), {"dumpPickle": lambda self, p, d, optionsDigest=None: dumped.append((str(p), d, optionsDigest))})()

    class FakeFile:
        def __init__(self, data):
            self.data, self.pos = list(data), 0

        def read(self, n=-1):
            if n is None or n < 0:
                n = len(self.data) - self.pos
            out = self.data[self.pos: self.pos + n]
            self.pos += len(out)
            return bytes(out)

        def __enter__(self):
            return self

        def __exit__(self, *a):
            return False

    class FakePath:
        def __init__(self, p):
            self.p = str(p)

        @property
        def suffix(self):
            return "." + self.p.rsplit(".", 1)[1] if "." in self.p else ""

        def with_suffix(self, s):
            return FakePath(self.p.rsplit(".", 1)[0] + s)

        def exists(self):
            return exists if self.p.endswith(N.pickledExt) else True

        def __str__(self):
            return self.p

    def fake_open(path, mode="r"):
        opened.append((str(path), mode))
        if str(path).endswith(N.pickledExt):
            return FakeFile(content)
        return FakeFile(map_bytes)

    class FakeGzip:
        @staticmethod
        def open(f, mode="rb"):
            return FakeFile([])

    class FakePickle:
        UnpicklingError = real_pickle.UnpicklingError

        @staticmethod
        def load(f):
            if unpickle == "ok":
                return cached_net
            if unpickle == "UnpicklingError":
                raise real_pickle.UnpicklingError("bad")
            raise {"EOFError": EOFError, "AttributeError": AttributeError}[unpickle]("bad")

        dumps = staticmethod(lambda obj: b"")

    class FakeStruct:
        @staticmethod
        def unpack(fmt, data):
            v = 0
            for i in range(len(data)):
                v = v + data[i] * (256 ** i)
            return (v,)

        pack = staticmethod(lambda fmt, v: bytes(4))

    class FakePathlib:
        Path = FakePath

    saved = {k: R.__dict__.get(k) for k in ("open", "gzip", "pickle", "pathlib", "struct")}
    R.open, R.gzip, R.pickle, R.pathlib, R.struct = fake_open, FakeGzip, FakePickle, FakePathlib, FakeStruct
    saved_handler = N.__dict__["fromOpenDrive"]
    N.fromOpenDrive = classmethod(lambda cls, path, **kw: parsed.append((str(path), kw)) or fresh_net)
    try:
        try:
            got = N.fromFile("town.xodr", useCache=use_cache, writeCache=write_cache, **kwargs)
            out = "cached" if got is cached_net else ("parsed" if got is fresh_net else "other")
        except Exception as e:
            out = "raised:" + type(e).__name__
    finally:
        N.fromOpenDrive = saved_handler
        for k, v in saved.items():
            if v is None:
                R.__dict__.pop(k, None)
            else:
                R.__dict__[k] = v
    valid = E.sym_and(use_cache, exists, vlen == 4, version == current, dlen == 64, digest_ok, olen == 8, opts_ok, unpickle == "ok")
    ctx.check("never-an-exception-because-of-a-bad-cache", not out.startswith("raised"), outcome=out)
    if out == "cached":
        ctx.check("cached-network-returned-only-for-a-complete-current-matching-cache", valid)
        ctx.check("map-not-parsed-when-the-cache-is-used", not parsed)
    elif out == "parsed":
        ctx.check("falls-back-to-parsing-only-when-the-cache-is-unusable", E.sym_not(valid))
        ctx.check("parsed-with-the-given-options", parsed == [("town.xodr", kwargs)])
        ctx.check("cache-rewritten-iff-writeCache", (len(dumped) == 1) == bool(write_cache) and
                  all(d[1] == true_digest and d[2] == true_opts for d in dumped))
    if not use_cache:
        ctx.check("useCache=False-never-reads-the-cache-file", not any(p.endswith(N.pickledExt) and "r" in m for p, m in opened), opened=opened)


def h_lookup(ctx):
    import scenic.domains.driving.roads as R
    from scenic.core.distributions import RejectionException

    n = 3

    class Elem:
        def __init__(self, i):
            self.uid = f"e{i}"

    elems = [Elem(i) for i in range(n)]
    exact = [ctx.flag(f"e{i}_contains_point") for i in range(n)]
    near = [ctx.flag(f"e{i}_within_tolerance") for i in range(n)]
    for i in range(n):
        ctx.assume(near[i] or not exact[i]) if False else None
    tol = ctx.choice("tolerance", [0.0, 0.5])
    reject = ctx.choice("reject", [False, True, "custom message"])

    targets = []

    class Tree:
        def query(self, target, predicate=None):
            targets.append(target)
            is_point = getattr(target, "geom_type", "") == "Point"
            flags = exact if is_point else [a or b for a, b in zip(exact, near)]
            return [i for i in range(n) if flags[i]]

    net = object.__new__(R.Network)
    net.__dict__.update(_rtree=Tree(), _uidForIndex={i: f"e{i}" for i in range(n)}, tolerance=tol)
    order = ctx.choice("element-order", list(itertools.permutations(range(n))))
    lst = [elems[i] for i in order]
    try:
        got = R.Network.findPointIn.__wrapped__(net, (1.0, 2.0), lst, reject) if hasattr(R.Network.findPointIn, "__wrapped__") else net.findPointIn((1.0, 2.0), lst, reject)
        out = got
    except RejectionException as e:
        out = ("rejected", str(e))
    import shapely.geometry as sg

    pt = sg.Point(1.0, 2.0)
    for t in targets:
        far = t.hausdorff_distance(pt)
        ctx.check("lookup-region-lies-within-the-tolerance-of-the-point", far <= tol * (1 + 1e-9), farthest=far, tolerance=tol,
                  kind=getattr(t, "geom_type", "?"))
    want = None
    for e in lst:
        if exact[int(e.uid[1:])]:
            want = e
            break
    if want is None and tol > 0:
        for e in lst:
            i = int(e.uid[1:])
            if exact[i] or near[i]:
                want = e
                break
    if want is not None:
        ctx.check("exact-match-first-then-tolerant-in-list-order", out is want, got=getattr(out, "uid", out), want=want.uid)
    elif reject:
        ctx.check("rejects-when-nothing-matches", isinstance(out, tuple) and out[0] == "rejected" and
                  (out[1] == reject if isinstance(reject, str) else True), got=out)
    else:
        ctx.check("returns-None-when-nothing-matches", out is None)


def h_options_digest(ctx):
    import scenic.core.serialization as S

    class Hasher:
        def __init__(self, **kw):
            self.parts = []

        def update(self, b):
            self.parts.append(bytes(b))

        def digest(self):
            return b"".join(self.parts)

    class FakeHashlib:
        blake2b = Hasher

    v1, v2 = ctx.int("value1", -50, 50), ctx.int("value2", -50, 50)
    ctx.assume(v1 != v2)
    saved = S.hashlib
    S.hashlib = FakeHashlib
    try:
        a = S.deterministicHash({"tolerance": v1, "fill": True})
        b = S.deterministicHash({"tolerance": v2, "fill": True})
        c = S.deterministicHash({"tolerance": v1, "fil": True, "l": 1})
        d = S.deterministicHash({"fill": True, "tolerance": v1})
    finally:
        S.hashlib = saved
    ctx.check("different-option-values-give-different-pre-hash-encodings", a != b)
    ctx.check("different-option-keys-give-different-pre-hash-encodings", a != c)
    ctx.check("key-order-does-not-matter", a == d)


def g_network_links():
    """Concrete auxiliary check (NOT the deciding technique, see EXPLANATION): reciprocity of links in the networks
    parsed from three small shipped maps."""
    from scenic.domains.driving.roads import Network

    bad, cases = [], 0
    for m in ("opendrive.org/CulDeSac.xodr", "LGSVL/cubetown.xodr", "LGSVL/borregasave_old.xodr"):
        n = Network.fromFile("/repo/assets/maps/" + m, useCache=False, writeCache=False)

        def chk(cond, msg):
            nonlocal cases
            cases += 1
            if not cond and len(bad) < 6:
                bad.append(f"{m}: {msg}")

        for r in n.allRoads or n.roads:
            for g in r.laneGroups:
                chk(g.road is r, f"lane group {g.uid} of road {r.uid} names road {g.road.uid}")
                if g._opposite is not None:
                    chk(g._opposite._opposite is g, f"opposite of opposite of {g.uid}")
            for l in r.lanes:
                chk(l.road is r and l.group in r.laneGroups and l in l.group.lanes, f"lane {l.uid} ownership")
                for sec in l.sections:
                    chk(sec.lane is l and sec.group is l.group and sec.road is r, f"lane section {sec.uid} ownership")
                for a in l.adjacentLanes:
                    chk(l in a.adjacentLanes, f"adjacent lanes {l.uid} / {a.uid} not reciprocal")
                for mv in l.maneuvers:
                    chk(mv.startLane is l, f"maneuver of lane {l.uid} starts at {mv.startLane.uid}")
            for sec in r.sections:
                chk(sec.road is r, f"road section {sec.uid} ownership")
        for i in n.intersections:
            roads = set(i.roads)
            for l in i.incomingLanes:
                chk(l.road in roads, f"incoming lane {l.uid} of {i.uid}: its road {l.road.uid} not among the intersection's roads")
                chk(l._successor is i or l.road._successor is i or l.road._predecessor is i, f"incoming lane {l.uid} not linked to {i.uid}")
            for l in i.outgoingLanes:
                chk(l.road in roads, f"outgoing lane {l.uid} of {i.uid}: its road {l.road.uid} not among the intersection's roads")
            for mv in i.maneuvers:
                chk(mv.intersection is i, f"maneuver {mv.startLane.uid}->{mv.endLane.uid} names another intersection")
                chk(mv.startLane in i.incomingLanes and mv.endLane in i.outgoingLanes, "maneuver start/end lanes not incoming/outgoing lanes")
                chk(mv.startLane.road in roads and mv.endLane.road in roads, f"roads of maneuver {mv.startLane.uid}->{mv.endLane.uid} not among the intersection's roads")
                chk(mv in mv.startLane.maneuvers, "maneuver not listed by its start lane")
            for r in i.roads:
                chk(r._successor is i or r._predecessor is i, f"road {r.uid} listed by {i.uid} is not linked to it")
    return (not bad, "; ".join(bad), cases)


def obligations(tier, seed):
    import scenic.core.serialization as S
    import scenic.domains.driving.roads as R

    return [
        Obligation("cache-validity", h_cache, "Network.fromFile/fromPickle: cached network used exactly when valid; otherwise parse",
                   {"header": "symbolic version, digests equal/different, truncations", "flags": "useCache/writeCache/exists symbolic",
                    "unpickling": ["ok", "UnpicklingError", "EOFError", "AttributeError"]},
                   [R.Network.fromFile.__func__, R.Network.fromPickle.__func__],
                   ["open / gzip.open / pickle.load / pathlib.Path / struct.unpack replaced by models"], opts=dict(total_timeout=900.0)),
        Obligation("cache-options", (lambda ctx: h_cache(ctx, "options")), "a cache written under options A is used for a load with options B only if A == B (8 x 8 option sets incl. falsy values)",
                   {"option sets": 8, "flags": "useCache/writeCache/exists symbolic"}, [R.Network.fromFile.__func__, R.Network.fromPickle.__func__, S.deterministicHash],
                   ["open / gzip.open / pickle.load / pathlib.Path / struct.unpack replaced by models"], opts=dict(total_timeout=600.0)),
        Obligation("point-lookup", h_lookup, "findPointIn priority: exact before tolerant, list order, reject",
                   {"elements": 3, "orders": "all (symbolic)", "candidate sets": "symbolic"}, [R.Network.findPointIn],
                   ["STRtree.query: arbitrary candidate sets (exact subset of tolerant)"], opts=dict(total_timeout=600.0)),
        Obligation("options-digest-encoding", h_options_digest, "deterministicHash pre-hash encoding distinguishes differing options",
                   {"values": "symbolic ints in [-50,50]"}, [S.deterministicHash], ["blake2b replaced by a concatenating hasher (collision resistance trusted)"]),
        Obligation("network-links[ground]", None, "auxiliary concrete check: link reciprocity / ownership in three small parsed maps (CulDeSac, cubetown, borregasave_old)",
                   {"maps": 3}, [], ["not solver-decided: data-driven check of parsed networks"], ground=g_network_links),
    ]
