"""C16 - region operations obey set semantics in full 3D."""
import math

from symx import engine as E
from symx import models as M
from symx.runner import Obligation

PROPERTY = "C16"
PRELOAD = ["scenic.core.regions", "scenic.core.vectors"]
LEVEL = "other"
EXPLANATION = (
    "Closed-form membership / distance / intersection / bounding-box kernels of the planar region classes "
    "are executed symbolically on regions built directly from symbolic centre, radius, heading, size and "
    "HEIGHT (reals) and symbolic probe points (all three coordinates), and compared by z3 with the geometric "
    "definitions (nonlinear real arithmetic; hypot/sqrt exact, sin/cos as a unit pair).  Polygon "
    "intersect/union/difference run on concrete polygons with a symbolic height: the result must keep it. "
    "The generic double dispatch (Region.intersect/union/difference/intersects, AllRegion, EmptyRegion, "
    "composite containsPoint) runs over abstract operand regions with symbolic membership."
)
MANIFEST_ENTRY = {
    "category": "other",
    "text": "Bounded symbolic checking (reals) of the closed-form region kernels against their geometric definitions in all three coordinates, of height preservation of the polygonal boolean operations, and of the generic dispatch / composite-region membership over abstract operands.",
    "note": "Trusted: CrossHair, z3 (NRA), reals for floats, models of hypot/sqrt/sin/cos. Outside: shapely / trimesh boolean results on concrete geometry, distances to meshes, tolerance behaviour at boundaries.",
}
ASSUMPTIONS = ["floats are reals; claims are exact over the reals, nothing about rounding"]


def _vec(ctx, name, z=True):
    from scenic.core.vectors import Vector

    return Vector(ctx.real(name + ".x"), ctx.real(name + ".y"), ctx.real(name + ".z") if z else 0)


def mk_circle(ctx, name):
    from scenic.core.regions import CircularRegion

    c = object.__new__(CircularRegion)
    c.center = _vec(ctx, name + ".center")
    c.radius = ctx.real(name + ".radius", 0, None)
    ctx.assume(c.radius > 0)
    c.z = c.center.z
    c.orientation = None
    c.name = name
    c.circumcircle = (c.center, c.radius)
    return c


def h_circle_contains(ctx):
    M.bind(ctx)
    c = mk_circle(ctx, "c")
    p = _vec(ctx, "p")
    got = c.containsPoint(p)
    dx, dy = p.x - c.center.x, p.y - c.center.y
    want = E.sym_and(p.z == c.center.z, dx * dx + dy * dy <= c.radius * c.radius)
    ctx.check("circle-membership-is-disc-at-its-height", want if got else E.sym_not(want))


def h_circle_distance(ctx):
    from scenic.core import regions as R

    M.bind(ctx)
    c = mk_circle(ctx, "c")
    p = _vec(ctx, "p")
    marker = object()
    saved = R.PolygonalRegion.distanceTo
    R.PolygonalRegion.distanceTo = lambda self, point: marker  # generic polygon distance (shapely): not encoded
    try:
        got = c.distanceTo(p)
    finally:
        R.PolygonalRegion.distanceTo = saved
    if got is marker:
        ctx.check("fell-back-to-generic-distance", True)
        return
    dx, dy, dz = p.x - c.center.x, p.y - c.center.y, p.z - c.center.z
    # true distance d >= 0 from p to the disc: d^2 = max(0, rho - r)^2 + dz^2 with rho = planar distance
    rho2 = dx * dx + dy * dy
    inside = rho2 <= c.radius * c.radius
    # got must be >= 0 and got^2 == (rho-r)^2 + dz^2 outside the cylinder, == dz^2 inside
    # (rho - r)^2 = rho2 - 2 r rho + r^2 ; use fresh rho >= 0 with rho^2 = rho2
    rho = M.real_sqrt(ctx, rho2, "rho")
    gap = E.sym_ite(inside, 0.0 * rho, rho - c.radius)
    want2 = gap * gap + dz * dz
    ctx.check("closed-form-distance-is-euclidean-distance-to-the-disc",
              E.sym_and(got >= 0, got * got == want2),
              robust=E.sym_or(got < -0.001, got * got - want2 > 0.01, want2 - got * got > 0.01))


def h_circle_intersects(ctx):
    M.bind(ctx)
    a, b = mk_circle(ctx, "a"), mk_circle(ctx, "b")
    got = a.intersects(b)
    dx, dy = a.center.x - b.center.x, a.center.y - b.center.y
    s = a.radius + b.radius
    want = E.sym_and(a.center.z == b.center.z, dx * dx + dy * dy <= s * s)
    ctx.check("two-discs-intersect-iff-same-height-and-centres-within-sum-of-radii", want if got else E.sym_not(want))


def h_circle_aabb(ctx):
    M.bind(ctx)
    c = mk_circle(ctx, "c")
    p = _vec(ctx, "p")
    dx, dy = p.x - c.center.x, p.y - c.center.y
    ctx.assume(E.sym_and(p.z == c.center.z, dx * dx + dy * dy <= c.radius * c.radius))
    (x0, y0, z0), (x1, y1, z1) = c.AABB
    ctx.check("bounding-box-contains-every-member",
              E.sym_and(x0 <= p.x, p.x <= x1, y0 <= p.y, p.y <= y1, z0 <= p.z, p.z <= z1))


def mk_rect(ctx):
    from scenic.core.regions import RectangularRegion
    from scenic.core.vectors import Vector

    r = object.__new__(RectangularRegion)
    r.position = _vec(ctx, "pos")
    r.heading = ctx.real("heading")
    r.width = ctx.real("width", 0, None)
    r.length = ctx.real("length", 0, None)
    ctx.assume(E.sym_and(r.width > 0, r.length > 0))
    r.hw, r.hl = r.width / 2, r.length / 2
    r.z = r.position.z
    r.orientation = None
    r.corners = tuple(r.position.offsetRotated(r.heading, Vector(*o))
                      for o in ((r.hw, r.hl), (-r.hw, r.hl), (-r.hw, -r.hl), (r.hw, -r.hl)))
    return r


def h_rect_sample_in_aabb(ctx):
    """uniformPointInner of a rectangle: point = position + R(heading)(rx, ry) with |rx|<=hw, |ry|<=hl lies in
    the AABB and at the rectangle's height."""
    import random

    M.bind(ctx)
    r = mk_rect(ctx)
    saved = random.uniform

    def uniform(a, b):
        u = ctx.real("uniform")
        ctx.assume(E.sym_and(a <= u, u <= b))
        return u

    random.uniform = uniform
    try:
        p = r.uniformPointInner()
    finally:
        random.uniform = saved
    (x0, y0, z0), (x1, y1, z1) = r.AABB
    ctx.check("sampled-point-inside-bounding-box-at-region-height",
              E.sym_and(x0 <= p.x, p.x <= x1, y0 <= p.y, p.y <= y1, p.z == r.position.z, z0 == r.position.z, z1 == r.position.z))


# ------------------------------------------------------------------ height preservation (concrete polygons, symbolic z)
def h_polygon_heights(op):
    def h(ctx):
        import shapely.geometry as sg
        from scenic.core.regions import EmptyRegion, PolygonalRegion

        z = ctx.real("z")
        ctx.assume(E.sym_or(z > 0.5, z < -0.5))
        A = PolygonalRegion(polygon=sg.Polygon([(0, 0), (4, 0), (4, 4), (0, 4)]), z=z)
        B = PolygonalRegion(polygon=sg.Polygon([(2, 2), (6, 2), (6, 6), (2, 6)]), z=z)
        res = getattr(A, op)(B)
        ctx.check(f"{op}-of-polygons-at-height-z-is-a-polygonal-region", isinstance(res, PolygonalRegion), got=type(res).__name__)
        if isinstance(res, PolygonalRegion):
            ctx.check(f"{op}-keeps-the-height-of-its-operands", res.z == z, robust=E.sym_or(res.z - z > 0.01, z - res.z > 0.01))
        # different heights: no common point
        z2 = ctx.real("z2")
        ctx.assume(E.sym_or(z2 > z + 0.5, z2 < z - 0.5))
        C = PolygonalRegion(polygon=sg.Polygon([(2, 2), (6, 2), (6, 6), (2, 6)]), z=z2)
        if op == "intersect":
            ctx.check("polygons-at-different-heights-have-empty-intersection", isinstance(A.intersect(C), EmptyRegion))
            ctx.check("polygons-at-different-heights-do-not-intersect", not A.intersects(C))
        if op == "difference":
            d = A.difference(C)
            ctx.check("difference-with-polygon-at-another-height-is-unchanged", d is A or (isinstance(d, PolygonalRegion) and d.z == z))

    return h


def _sys_replay_heights(op):
    def rp(cex):
        import shapely.geometry as sg
        from scenic.core.regions import PolygonalRegion

        z = float(cex["inputs"].get("z", 2.0))
        A = PolygonalRegion(polygon=sg.Polygon([(0, 0), (4, 0), (4, 4), (0, 4)]), z=z)
        B = PolygonalRegion(polygon=sg.Polygon([(2, 2), (6, 2), (6, 6), (2, 6)]), z=z)
        res = getattr(A, op)(B)
        rz = getattr(res, "z", None)
        return (rz != z), f"PolygonalRegion(z={z}).{op}(PolygonalRegion(z={z})).z == {rz}"

    return rp


def h_lazy_polygon_height(ctx):
    """A lazily constructed polygonal region keeps its (random) height when it is sampled / evaluated."""
    import shapely.geometry as sg
    import types
    from scenic.core.distributions import Range
    from scenic.core.regions import PolygonalRegion
    from scenic.core.utils import DefaultIdentityDict

    zdist = Range(2, 4)
    R = PolygonalRegion(polygon=sg.Polygon([(0, 0), (4, 0), (4, 4), (0, 4)]), z=zdist)
    z = ctx.real("z", 2, 4)
    value = DefaultIdentityDict()
    value[zdist] = z
    S = R.sampleGiven(value)
    ctx.check("sampled-lazy-polygon-keeps-its-height", S.z == z, robust=E.sym_or(S.z - z > 0.01, z - S.z > 0.01))
    ctx.check("sampled-lazy-polygon-keeps-its-shape", S.polygons.equals(R._polygon if R._polygon is not None else S.polygons))
    from scenic.core.lazy_eval import DelayedArgument, LazilyEvaluable

    zlazy = DelayedArgument({"foo"}, lambda context: context.foo, _internal=True)
    R2 = PolygonalRegion(polygon=sg.Polygon([(0, 0), (4, 0), (4, 4), (0, 4)]), z=zlazy)
    E2 = R2.evaluateIn(LazilyEvaluable.makeContext(foo=z))
    ctx.check("evaluated-lazy-polygon-keeps-its-height", E2.z == z, robust=E.sym_or(E2.z - z > 0.01, z - E2.z > 0.01))


def ground_lazy_regions():
    """Lazily constructed disc / sector / rectangle: sampling rebuilds the region from exactly the sampled parameters."""
    from scenic.core.distributions import Range
    from scenic.core.regions import CircularRegion, RectangularRegion, SectorRegion
    from scenic.core.utils import DefaultIdentityDict
    from scenic.core.vectors import Vector

    problems, cases = [], 0
    cx, r, h, a, w, l = Range(0, 1), Range(1, 2), Range(0, 1), Range(1, 2), Range(1, 2), Range(3, 4)
    val = DefaultIdentityDict()
    for d, v in ((cx, 0.25), (r, 1.5), (h, 0.75), (a, 1.25), (w, 1.75), (l, 3.5)):
        val[d] = v
    center = Vector(cx, 2, 3)
    val[center] = Vector(0.25, 2, 3)
    c = CircularRegion(center, r).sampleGiven(val)
    cases += 1
    if tuple(c.center) != (0.25, 2, 3) or c.radius != 1.5 or c.z != 3:
        problems.append(f"CircularRegion sampled as centre {tuple(c.center)} radius {c.radius} z {c.z}")
    s = SectorRegion(center, r, h, a).sampleGiven(val)
    cases += 1
    if tuple(s.center) != (0.25, 2, 3) or (s.radius, s.heading, s.angle, s.z) != (1.5, 0.75, 1.25, 3):
        problems.append(f"SectorRegion sampled as {tuple(s.center)}, {s.radius}, {s.heading}, {s.angle}, z {s.z}")
    q = RectangularRegion(center, h, w, l).sampleGiven(val)
    cases += 1
    if tuple(q.position) != (0.25, 2, 3) or (q.heading, q.width, q.length, q.z) != (0.75, 1.75, 3.5, 3):
        problems.append(f"RectangularRegion sampled as {tuple(q.position)}, {q.heading}, {q.width}, {q.length}, z {q.z}")
    return (not problems), " | ".join(problems), cases


def ground_contains_region():
    """containsRegion answers (or NotImplementedError/TypeError) for the planar region kinds, consistent with
    membership on concrete nested squares (ground)."""
    import shapely.geometry as sg
    from scenic.core.regions import BoxRegion, CircularRegion, PolygonalRegion, RectangularRegion
    from scenic.core.vectors import Vector

    big = PolygonalRegion(polygon=sg.Polygon([(0, 0), (10, 0), (10, 10), (0, 10)]))
    small = PolygonalRegion(polygon=sg.Polygon([(2, 2), (3, 2), (3, 3), (2, 3)]))
    out = PolygonalRegion(polygon=sg.Polygon([(8, 8), (12, 8), (12, 12), (8, 12)]))
    circ = CircularRegion(Vector(5, 5), 1)
    rect = RectangularRegion(Vector(5, 5), 0.3, 1, 2)
    box = BoxRegion(position=(5, 5, 0), dimensions=(1, 1, 1))
    problems, cases = [], 0
    containers = {"polygon": big, "footprint": big.footprint}
    inside = {"polygon": small, "footprint-of-polygon": small.footprint, "circle": circ, "rectangle": rect, "box-volume": box}
    for cn, c in containers.items():
        for rn, r in inside.items():
            cases += 1
            try:
                ans = c.containsRegion(r)
            except (NotImplementedError, TypeError):
                continue
            except Exception as e:
                problems.append(f"{cn}.containsRegion({rn}) raised {type(e).__name__}: {e}")
                continue
            three_d = rn in ("footprint-of-polygon", "box-volume")
            if cn == "polygon" and three_d:
                if ans:
                    problems.append(f"planar polygon claims to contain the solid {rn}")
            elif not ans:
                problems.append(f"{cn}.containsRegion({rn}) is False for a region well inside")
        cases += 1
        try:
            if c.containsRegion(out):
                problems.append(f"{cn}.containsRegion(region sticking out) is True")
        except (NotImplementedError, TypeError):
            pass
        except Exception as e:
            problems.append(f"{cn}.containsRegion(out) raised {type(e).__name__}")
    return (not problems), " | ".join(problems)[:800], cases


def h_footprint_cache(ctx):
    """PolygonalFootprintRegion.approxBoundFootprint: whatever is cached, the returned prism covers the
    requested vertical range [centerZ - height/2, centerZ + height/2]."""
    from scenic.core.regions import PolygonalFootprintRegion

    fp = object.__new__(PolygonalFootprintRegion)
    made = []

    def boundFootprint(centerZ, height):
        tok = ("prism", centerZ, height)
        made.append(tok)
        return tok

    fp.boundFootprint = boundFootprint
    if ctx.flag("cache_populated"):
        pc, ph = ctx.real("cached.centerZ"), ctx.real("cached.height", 0, None)
        fp._bounded_cache = (pc, ph, ("prism", pc, ph))
    else:
        fp._bounded_cache = None
    cz, h = ctx.real("centerZ"), ctx.real("height", 0, None)
    ctx.assume(h > 0)
    got = fp.approxBoundFootprint(cz, h)
    _, gc, gh = got
    ctx.check("returned-prism-covers-the-requested-vertical-range",
              E.sym_and(gc + gh / 2 >= cz + h / 2, gc - gh / 2 <= cz - h / 2),
              robust=E.sym_or(gc + gh / 2 < cz + h / 2 - 0.01, gc - gh / 2 > cz - h / 2 + 0.01), reused_cache=not made)
    c2 = fp._bounded_cache
    ctx.check("cache-describes-the-prism-it-stores", c2 is not None and c2[2][1] is c2[0] and c2[2][2] is c2[1])


# ------------------------------------------------------------------ generic dispatch over abstract operands
def h_dispatch(ctx):
    from scenic.core import regions as R
    from scenic.core.vectors import Vector

    p = Vector(1, 2, 3)
    inA, inB = ctx.bool("p_in_A"), ctx.bool("p_in_B")

    class Abs(R.Region):
        def __init__(self, name, member):
            super().__init__(name)
            self.member = member

        def containsPoint(self, point):
            return self.member

        AABB = None

        def containsObject(self, obj): raise NotImplementedError
        def containsRegionInner(self, other, tolerance): raise NotImplementedError
        def distanceTo(self, point): raise NotImplementedError
        def projectVector(self, point, onDirection): raise NotImplementedError
        def uniformPointInner(self): raise NotImplementedError

    A, B = Abs("A", inA), Abs("B", inB)
    kinds = {"A": (A, inA), "everywhere": (R.everywhere, True), "nowhere": (R.nowhere, False)}
    X, inX = ctx.choice("left", list(kinds.values()))
    Y, inY = ctx.choice("right", [(B, inB), (R.everywhere, True), (R.nowhere, False)])
    for op, comb in (("intersect", lambda a, b: E.sym_and(a, b)), ("union", lambda a, b: E.sym_or(a, b)),
                     ("difference", lambda a, b: E.sym_and(a, E.sym_not(b)))):
        res = getattr(X, op)(Y)
        got = res.containsPoint(p)
        want = comb(inX, inY)
        ctx.check(f"{op}-membership-is-boolean-combination", want if got else E.sym_not(want),
                  left=type(X).__name__, right=type(Y).__name__, result=type(res).__name__)
        if op != "difference":
            res2 = getattr(Y, op)(X)
            got2 = res2.containsPoint(p)
            ctx.check(f"{op}-is-symmetric-in-membership", want if got2 else E.sym_not(want))


def obligations(tier, seed):
    from scenic.core import regions as R
    from scenic.core.vectors import Vector

    mp = M.math_patches()
    mm = M.MATH_MODELS
    o = dict(patches=mp, total_timeout=200.0, vc_timeout=20.0)
    obs = [
        Obligation("circle-containsPoint", h_circle_contains, "CircularRegion.containsPoint == disc at its height",
                   {"centre/radius/point": "any reals, radius>0"}, [R.CircularRegion.containsPoint, Vector.distanceTo], mm, opts=o),
        Obligation("circle-distanceTo", h_circle_distance, "closed-form branch of CircularRegion.distanceTo == Euclidean distance to the disc",
                   {"centre/radius/point": "any reals"}, [R.CircularRegion.distanceTo], mm + ["generic PolygonalRegion.distanceTo (shapely) replaced by a marker"], opts=o),
        Obligation("circle-intersects-circle", h_circle_intersects, "CircularRegion.intersects(CircularRegion)",
                   {}, [R.CircularRegion.intersects], mm, opts=o),
        Obligation("circle-AABB", h_circle_aabb, "AABB of a disc contains all its members", {}, [R.CircularRegion.AABB.fget], mm, opts=o),
        Obligation("rectangle-sample-in-AABB", h_rect_sample_in_aabb, "RectangularRegion.uniformPointInner within AABB at region height",
                   {}, [R.RectangularRegion.uniformPointInner, R.RectangularRegion.AABB.fget, Vector.offsetRotated, Vector.rotatedBy],
                   mm + ["random.uniform(a,b): arbitrary real in [a,b]"], opts=o),
        Obligation("dispatch-abstract-operands", h_dispatch, "generic intersect/union/difference over abstract operands, everywhere, nowhere",
                   {"operands": "abstract region / everywhere / nowhere"},
                   [R.Region.intersect, R.Region.union, R.Region.difference, R.IntersectionRegion.containsPoint,
                    R.UnionRegion.containsPoint, R.DifferenceRegion.containsPoint], []),
    ]
    obs.append(Obligation("lazy-polygon-height", h_lazy_polygon_height, "PolygonalRegion.sampleGiven / evaluateInner keep the height",
                          {"z": "symbolic in [2,4]"}, [R.PolygonalRegion.sampleGiven, R.PolygonalRegion.evaluateInner], []))
    obs.append(Obligation("lazy-regions-ground", None, "disc / sector / rectangle rebuilt from exactly the sampled parameters (ground)", {}, 
                          [R.CircularRegion.sampleGiven, R.SectorRegion.sampleGiven, R.RectangularRegion.sampleGiven], [], ground=ground_lazy_regions))
    obs.append(Obligation("contains-region-ground", None, "containsRegion on nested concrete regions answers or declines, never crashes (ground)", {},
                          [R.PolygonalFootprintRegion.containsRegionInner, R.PolygonalRegion.containsRegionInner], [], ground=ground_contains_region))
    obs.append(Obligation("footprint-prism-cache", h_footprint_cache, "approxBoundFootprint: cached or fresh prism covers the requested z range",
                          {"cache": "arbitrary", "request": "any centre, height>0"}, [R.PolygonalFootprintRegion.approxBoundFootprint],
                          ["boundFootprint (mesh extrusion): token recording its arguments"]))
    for op in ("intersect", "union", "difference"):
        obs.append(Obligation(f"polygon-{op}-height", h_polygon_heights(op), f"PolygonalRegion.{op} keeps the operands' height",
                              {"polygons": "two concrete overlapping squares", "z": "symbolic, |z|>0.5"},
                              [getattr(R.PolygonalRegion, op), R.regionFromShapelyObject], ["shapely boolean operations on concrete polygons (real library)"],
                              system_replay=_sys_replay_heights(op)))
    # MeshVolumeRegion.intersects / containsObject belong to the region algebra too (shared with C04)
    from harness import c04_overlap as C4

    o4 = dict(total_timeout=300.0, vc_timeout=20.0)
    obs.append(Obligation("volume-intersects-volume[shared with C04]", C4.h_volume_intersects, "MeshVolumeRegion.intersects passes 1-5 return the ground truth, whichever operand is the receiver",
                          {"library answers": "symbolic under axioms A1-A6"}, [R.MeshVolumeRegion.intersects], C4.ASSUMPTIONS[:6], opts=o4))
    obs.append(Obligation("volume-contains-object[shared with C04]", C4.h_volume_contains_object, "MeshVolumeRegion.containsObject passes 1-5",
                          {"library answers": "symbolic under axioms B1-B5"}, [R.MeshVolumeRegion.containsObject], C4.CONTAIN_AXIOMS, opts=o4))
    return obs
