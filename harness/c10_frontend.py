"""C10 - the front end is total: a scenario or a located syntax error, never a crash."""
import ast
import glob
import io
import os
import random
import tokenize

from symx import engine as E
from symx.runner import Obligation

PROPERTY = "C10"
PRELOAD = ["scenic", "scenic.syntax.parser", "scenic.syntax.compiler", "scenic.syntax.translator"]
LEVEL = "exploration"
EXPLANATION = (
    "(a) Error-helper totality: get_expr_name (the helper every invalid-target rule calls) is applied to an "
    "instance of EVERY expression node class of Python's ast and of scenic.syntax.ast - the class is a solver-"
    "enumerated choice - and must return a name.  (b) Token-level mutations (delete, replace or insert from a "
    "vocabulary of Scenic/Python tokens, swap neighbours, truncate, re-indent) of the repository's Scenic "
    "programs: the mutation site, operator and vocabulary item are symbolic choice variables which the solver "
    "enumerates over a seeded subset; the real parser + compiler run on each mutant; the outcome must be "
    "success or a ScenicSyntaxError whose line lies inside the input, and the veneer must be inactive "
    "afterwards.  (c) State reset: compileStream with a fault injected at each stage (tokenise/parse, compile, "
    "Python compile, execution) leaves veneer.isActive() false.  The parser itself runs concretely: this is "
    "bounded exploration driven by the solver, not symbolic reasoning about the grammar, and is reported as such."
)
MANIFEST_ENTRY = {
    "category": "exploration",
    "text": "Solver-enumerated exploration: every expression node class through the error-naming helper; statement templates (tracked names in every binding position, numeric literal forms, f-string conversions) and seeded token-level mutations of the repository's Scenic programs through the real parser and compiler (outcome: success or located ScenicSyntaxError; compiler state inactive afterwards); faults at each compilation stage.",
    "note": "A symbolic source text concretises at the first token comparison, so the grammar itself is not reasoned about symbolically: the choice variables (site, operator, replacement, node class, fault stage) are enumerated by the solver over bounded, seeded sets. Outside: parser non-termination (per-input wall-clock limit only), all mutations of all programs.",
}
ASSUMPTIONS = ["mutation sites / vocabulary are seeded samples (VERIF_SEED)"]

VOCAB = ["new", "at", "in", "on", "facing", "with", "require", "always", "eventually", "until", "implies", "behavior", "scenario",
         "do", "take", "wait", "try", "interrupt", "when", "terminate", "ego", "(", ")", ":", ",", "=", "[", "]", "deg", "by",
         "relative", "to", "from", "for", "if", "else", "not", "and", "visible", "param", "model", "+", "*", "@", ".", "lambda",
         "0", "x", "'s'", "\n", "    "]


def corpus_files():
    files = sorted(glob.glob("/repo/examples/**/*.scenic", recursive=True) + glob.glob("/repo/tests/**/*.scenic", recursive=True))
    return [f for f in files if os.path.getsize(f) < 6000]


def tokens_of(src):
    toks = []
    try:
        for t in tokenize.generate_tokens(io.StringIO(src).readline):
            if t.type in (tokenize.ENDMARKER,):
                continue
            toks.append(t)
    except (tokenize.TokenError, IndentationError, SyntaxError):
        pass
    return toks


def offsets(src):
    lines = src.splitlines(keepends=True)
    starts = [0]
    for l in lines:
        starts.append(starts[-1] + len(l))
    return lambda pos: starts[pos[0] - 1] + pos[1]


def mutate(src, toks, op, i, v):
    off = offsets(src)
    t = toks[i]
    a, b = off(t.start), off(t.end)
    if op == "delete":
        return src[:a] + src[b:]
    if op == "replace":
        return src[:a] + v + src[b:]
    if op == "insert":
        return src[:a] + v + " " + src[a:]
    if op == "swap":
        if i + 1 >= len(toks):
            return src
        u = toks[i + 1]
        c, d = off(u.start), off(u.end)
        if c < b:
            return src
        return src[:a] + src[c:d] + src[b:c] + src[a:b] + src[d:]
    if op == "truncate":
        return src[:a]
    if op == "reindent":
        ls = src.splitlines(keepends=True)
        k = t.start[0] - 1
        if k >= len(ls):
            return src
        ls[k] = ("  " + ls[k]) if v != "\n" else ls[k].lstrip()
        return "".join(ls)
    raise ValueError(op)


def front_end(src):
    """Parse + compile (no execution).  Returns (kind, detail)."""
    import scenic.syntax.veneer as veneer
    from scenic.core.errors import ScenicSyntaxError
    from scenic.syntax.compiler import compileScenicAST
    from scenic.syntax.parser import parse_string
    from scenic.syntax.translator import compileTranslatedTree

    nlines = src.count("\n") + 1
    try:
        tree = parse_string(src, "exec", filename="<mutant>")
        py, _reqs = compileScenicAST(tree, filename="<mutant>")
        compileTranslatedTree(py, "<mutant>")
        out = ("ok", None)
    except ScenicSyntaxError as e:
        ln = getattr(e, "lineno", None)
        if ln is None or not (1 <= ln <= nlines + 1):
            out = ("bad-location", f"{type(e).__name__} lineno={ln} for an input of {nlines} lines")
        else:
            out = ("syntax-error", None)
    except RecursionError:
        out = ("ok", "recursion limit (deep nesting)")
    except Exception as e:
        out = ("crash", f"{type(e).__name__}: {str(e)[:120]}")
    if veneer.isActive():
        out = ("veneer-active", out[1])
    return out


def h_mutations(path, op, sites, vocab):
    def h(ctx):
        src = open(path).read()
        toks = tokens_of(src)
        i = ctx.choice("site", sites)
        v = ctx.choice("replacement", vocab) if op in ("replace", "insert", "reindent") else ""
        if i >= len(toks):
            ctx.check("site-in-range", True)
            return
        if ctx.symbolic:
            from crosshair.tracers import NoTracing

            with NoTracing():
                m = mutate(src, toks, op, i, v)
                kind, detail = front_end(m)
        else:
            m = mutate(src, toks, op, i, v)
            kind, detail = front_end(m)
        ctx.check("scenario-or-located-syntax-error", kind in ("ok", "syntax-error"), outcome=kind, detail=detail,
                  file=os.path.relpath(path, "/repo"), operator=op, token=toks[i].string[:20], line=toks[i].start[0], replacement=v)

    return h


# ------------------------------------------------------------------ statement templates with a hole
NAMES = ["ego", "workspace", "globalParameters", "self", "str", "x", "simulation", "new", "behavior"]
NAME_TEMPLATES = [
    "del {}", "del x, {}", "{} += 1", "{} = 3", "a = {} = 3", "a, {} = 1, 2", "for {} in y:\n    pass", "with a as {}:\n    pass",
    "import m as {}", "from m import {}", "from m import n as {}", "def {}():\n    pass", "class {}:\n    pass", "def f({}):\n    pass",
    "def f(*{}):\n    pass", "def f(a, {}=1):\n    pass", "g = lambda {}: 0", "l = [0 for {} in y]", "d = {{k: 0 for k, {} in y}}", "n = ({} := 3)",
    "try:\n    pass\nexcept E as {}:\n    pass", "global {}", "{}: int = 3", "{}.x = 1", "{}[0] = 1", "del {}.x", "del {}[0]",
    "match v:\n    case {}:\n        pass", "match v:\n    case [a, *{}]:\n        pass", "match v:\n    case {{'k': {}}}:\n        pass",
    "behavior B():\n    del {}\n    wait", "behavior B():\n    {} += 1\n    wait", "behavior B():\n    for {} in y:\n        wait",
    "behavior B({}):\n    wait", "scenario S():\n    setup:\n        del {}", "monitor M():\n    {} = 1\n    wait",
    "behavior B():\n    {}: int = 3\n    wait", "behavior B():\n    {}: int\n    wait", "monitor M():\n    {}: int = 0\n    wait",
    "scenario S():\n    setup:\n        {}: float = 2.0\n        ego = new Object", "behavior B():\n    take : {}(1)",
    "class C(Object):\n    {}: 1", "ego = new Object with {} 3", "param {} = 3", "record 1 as {}", "require True as {}",
]
NUMBERS = ["0x1", "1j", "0o7", "0b11", "1e400", "1_0", ".5", "5.", "1E-3", "0", "1", "2", "0.5", "00", "1e-400", "0_1", "1__0", "0xg", "1.5j"]
NUMBER_TEMPLATES = [
    "ego = new Object\nrequire[{}] True", "ego = new Object\nrecord 1 as {}", "ego = new Object\nrequire True as {}",
    "ego = new Object\nterminate after {} steps", "ego = new Object\nterminate after {} seconds",
    "behavior B():\n    wait for {} steps\nego = new Object", "behavior B():\n    wait for {} seconds\nego = new Object",
    "behavior A():\n    wait\nbehavior B():\n    do A() for {} steps\nego = new Object",
    "ego = new Object\nrecord 1 every {} steps", "ego = new Object at ({}, {} deg)", "ego = new Object facing {} deg",
    "x = {}", "x = -{} + {}j", "ego = new Object\nmutate ego by {}", "ego = new Object\nrecord 1 after {} seconds as r",
    "match v:\n    case {}:\n        pass", "match v:\n    case -{} + {}:\n        pass",
]
SPECIFIERS = ["at (1, 2)", "offset by (1, 2)", "offset along 3 by (1, 2)", "beyond ego by (1, 2)", "beyond ego by 3 from ego", "visible", "visible from ego",
              "not visible", "not visible from ego", "in workspace", "on workspace", "contained in workspace", "facing 3", "facing toward ego",
              "facing away from ego", "facing directly toward ego", "facing directly away from ego", "apparently facing 3", "apparently facing 3 from ego",
              "with foo 3", "left of ego", "right of ego by 1", "ahead of ego by 1", "behind ego", "above ego by 1", "below ego",
              "following f for 3", "following f from ego for 3", "at (1, 2), facing 3", "beyond ego by 3, with foo 1"]
FORGOT_NEW_TEMPLATES = ["x = Car {}", "Car {}", "ego = Object {}", "x = [Car {}]", "f(Car {})", "x = interrupt Car {}",
                        "behavior B():\n    c = Car {}\n    wait", "x = new Car {}", "new Object {}"]
CONVERSIONS = ["s", "r", "a", "sr", "ra", "sra", "x", "rr", "", " r", "R", "1", "s ", "ss"]
FSTRING_TEMPLATES = ["v = f'{{x!{}}}'", "v = f'{{x!{}:>4}}'", "v = f'{{x = !{}}}'", "v = f'a{{x!{}}}b{{y}}'", 'v = f"""{{x!{}}}"""',
                     "v = rf'\\d{{x!{}}}'", "v = f'{{x:{{w}}!{}}}'", "v = f'{{f\"{{y!{}}}\"}}'"]


def h_templates(templates, fills):
    def h(ctx):
        t = ctx.choice("template", templates)
        v = ctx.choice("fill", fills)
        src = t.format(*([v] * t.count("{}"))) + "\n"
        if ctx.symbolic:
            from crosshair.tracers import NoTracing

            with NoTracing():
                kind, detail = front_end(src)
        else:
            kind, detail = front_end(src)
        ctx.check("scenario-or-located-syntax-error", kind in ("ok", "syntax-error"), outcome=kind, detail=detail, source=src)

    return h


def expr_classes():
    import scenic.syntax.ast as S

    py = [c for c in vars(ast).values() if isinstance(c, type) and issubclass(c, ast.expr) and c is not ast.expr
          and c.__module__ in ("ast", "_ast") and not c.__name__.startswith("_")
          and c.__name__ not in ("Num", "Str", "Bytes", "NameConstant", "Ellipsis", "Index", "ExtSlice", "Slice")]
    sc = [c for c in vars(S).values() if isinstance(c, type) and issubclass(c, S.AST) and c is not S.AST
          and not issubclass(c, ast.stmt)]
    return sorted(set(py), key=lambda c: c.__name__), sorted(set(sc), key=lambda c: c.__name__)


def h_expr_names(which):
    def h(ctx):
        from scenic.syntax.parser import ScenicParser

        py, sc = expr_classes()
        classes = py if which == "python" else sc
        cls = ctx.choice("node-class", classes)
        node = cls.__new__(cls)
        node.lineno, node.col_offset, node.end_lineno, node.end_col_offset = 1, 0, 1, 1
        if cls is ast.Constant:
            node.value = ctx.choice("constant", [None, True, False, Ellipsis, 1, "s"])
        parser = ScenicParser.__new__(ScenicParser)
        try:
            name = parser.get_expr_name(node)
            ok = isinstance(name, str) and len(name) > 0
            detail = name
        except Exception as e:
            ok, detail = False, f"{type(e).__name__}"
        ctx.check("every-expression-node-has-a-name-for-error-messages", ok, node_class=cls.__name__, result=detail)

    return h


def sys_replay_expr(cex):
    from scenic.core.errors import ScenicSyntaxError
    from scenic.syntax.parser import parse_string

    src = "x = [y for y at z]\n"
    try:
        parse_string(src, "exec")
        return False, "parsed"
    except ScenicSyntaxError as e:
        return False, f"located syntax error: {e}"
    except Exception as e:
        return True, f"{src.strip()!r} -> {type(e).__name__}: {e}"


STAGES = ["parse", "compile", "python-compile", "execute", "store"]


def h_state_reset(ctx):
    """A fault (or a genuine syntax error) at any stage of compiling the top-level file OR a module it imports
    leaves the compiler state inactive, and the next compilation works."""
    import shutil
    import sys
    import tempfile

    import scenic
    import scenic.syntax.translator as T
    import scenic.syntax.veneer as veneer

    class Boom(Exception):
        pass

    where = ctx.choice("where", ["top-level file", "imported module", "module imported by an imported module"])
    stage = ctx.choice("fault-stage", STAGES + ["genuine-syntax-error"])
    kind = ctx.choice("exception", [Boom, ValueError, KeyboardInterrupt])
    depth = {"top-level file": 1, "imported module": 2, "module imported by an imported module": 3}[where]
    names = {"parse": "parse_string", "compile": "compileScenicAST", "python-compile": "compileTranslatedTree",
             "execute": "executeCodeIn", "store": "storeScenarioStateIn"}
    d = tempfile.mkdtemp(prefix="c10_")
    files = {"c10main.scenic": "import c10liba\nego = new Object\n", "c10liba.scenic": "import c10libb\na = 1\n", "c10libb.scenic": "b = 2\n"}
    if stage == "genuine-syntax-error":
        victim = ["c10main.scenic", "c10liba.scenic", "c10libb.scenic"][depth - 1]
        files[victim] += "x = = 1\n"
    for fn, txt in files.items():
        with open(os.path.join(d, fn), "w") as f:
            f.write(txt)
    for m in [m for m in sys.modules if m.startswith("c10")]:
        del sys.modules[m]
    fired = []
    saved = None
    if stage != "genuine-syntax-error":
        saved = getattr(T, names[stage])
        calls = [0]

        def faulty(*a, **k):
            calls[0] += 1
            if calls[0] == depth:
                fired.append(True)
                raise kind("injected")
            return saved(*a, **k)

        setattr(T, names[stage], faulty)
    try:
        try:
            scenic.scenarioFromFile(os.path.join(d, "c10main.scenic"), mode2D=True)
            out = "completed"
        except BaseException as e:
            out = type(e).__name__
    finally:
        if saved is not None:
            setattr(T, names[stage], saved)
        shutil.rmtree(d, ignore_errors=True)
        for m in [m for m in sys.modules if m.startswith("c10")]:
            del sys.modules[m]
    if fired or stage == "genuine-syntax-error":
        ctx.check("fault-propagates", out != "completed", stage=stage, where=where)
    ctx.check("compiler-state-inactive-after-a-failed-compilation", not veneer.isActive(), stage=stage, where=where,
              exception=kind.__name__, activity=veneer.activity, outcome=out)
    if veneer.isActive():  # do not poison later paths
        while veneer.activity > 0:
            veneer.deactivate()
    try:
        sc = scenic.scenarioFromString("param p = 1\nego = new Object\n", params={"p": 2}, mode2D=True)
        nxt = "ok" if sc is not None and not veneer.isActive() else "veneer-active"
    except BaseException as e:
        nxt = type(e).__name__
    ctx.check("next-compilation-works", nxt == "ok", outcome=nxt, stage=stage, where=where)


def obligations(tier, seed):
    from scenic.syntax import compiler, parser, translator

    rnd = random.Random(8800 + seed)
    files = corpus_files()
    chosen = rnd.sample(files, min(len(files), 10 if tier == "quick" else 40))
    nsites = 12 if tier == "quick" else 40
    nvocab = 4 if tier == "quick" else 8
    obs = []
    py, sc = expr_classes()
    obs.append(Obligation("expr-names[python-nodes]", h_expr_names("python"), "get_expr_name total on Python expression nodes",
                          {"classes": len(py)}, [parser.ScenicParser.get_expr_name], []))
    obs.append(Obligation("expr-names[scenic-nodes]", h_expr_names("scenic"), "get_expr_name total on Scenic expression nodes",
                          {"classes": len(sc)}, [parser.ScenicParser.get_expr_name], [], system_replay=sys_replay_expr))
    obs.append(Obligation("state-reset-on-faults", h_state_reset, "veneer inactive after a fault at any compilation stage",
                          {"stages": STAGES}, [translator.compileStream, translator._scenarioFromStream], [], opts=dict(total_timeout=900.0, per_path_timeout=60.0)))
    tobs = [("tracked-and-reserved-names-in-binding-positions", NAME_TEMPLATES, NAMES), ("numeric-literal-forms", NUMBER_TEMPLATES, NUMBERS),
            ("fstring-conversions", FSTRING_TEMPLATES, CONVERSIONS), ("instance-creation-with-and-without-new", FORGOT_NEW_TEMPLATES, SPECIFIERS)]
    for name, templates, fills in tobs:
        obs.append(Obligation(f"templates[{name}]", h_templates(templates, fills), f"{len(templates)} statement templates x {len(fills)} fills",
                              {"templates": len(templates), "fills": fills}, [parser.parse_string, compiler.compileScenicAST, translator.compileTranslatedTree], [],
                              opts=dict(total_timeout=(300.0 if tier == "quick" else 1500.0), max_paths=4000), twin=False))
    for path in chosen:
        src = open(path).read()
        n = len(tokens_of(src))
        if n < 3:
            continue
        for op in ("delete", "replace", "insert", "swap", "truncate", "reindent"):
            sites = sorted(rnd.sample(range(n), min(n, nsites if op in ("delete", "swap", "truncate") else max(3, nsites // 3))))
            vocab = rnd.sample(VOCAB, nvocab)
            obs.append(Obligation(f"mutate[{os.path.relpath(path, '/repo')}][{op}]", h_mutations(path, op, sites, vocab),
                                  f"{op} mutations of {os.path.relpath(path, '/repo')}",
                                  {"sites": len(sites), "vocabulary": vocab if op in ("replace", "insert") else None},
                                  [parser.parse_string, compiler.compileScenicAST, translator.compileTranslatedTree], [],
                                  opts=dict(total_timeout=(300.0 if tier == "quick" else 1500.0), per_path_timeout=120.0), twin=False, collect_all=False))
    return obs
