"""C08 - pruning never changes which scenes can be generated."""
import ast
import itertools
import math

from symx import engine as E
from symx import models as M
from symx.runner import Obligation

PROPERTY = "C08"
PRELOAD = ["scenic.core.pruning", "scenic.syntax.relations", "scenic.core.regions"]
LEVEL = "other"
EXPLANATION = (
    "Pruning is sound when each of its ingredients over-approximates.  (a) Bound extraction: the real "
    "RequirementMatcher runs on requirement syntax trees (every comparison operator x every template the "
    "matcher recognises, chains of two comparators) whose constants are symbolic reals; for a symbolic value "
    "q of the bounded quantity z3 decides: requirement true => q within the extracted bounds; the "
    "post-processing of distance / relative-heading relations (clamping, converse) is included.  (c) Voxel "
    "over-approximation arithmetic of _erodeOverapproximate / _bufferOverapproximate with symbolic amounts, "
    "pitch and extents, given `one pass moves the boundary by between one voxel edge and one voxel diagonal`: "
    "total erosion <= requested, total dilation >= requested; the retry loops of pruneContainment / "
    "bufferHelper terminate when voxel->mesh conversion fails below an arbitrary pitch threshold.  (d) "
    "Relative-heading feasibility: for all cell headings and bounded disturbances, a pair of cells whose true "
    "(normalised) relative heading can lie within the relation's bounds is kept.  (e) visibilityBound is an "
    "upper bound of the planar distance for all camera offsets in their supports.  (f) "
    "checkConditionedCycle equals reachability in the conditioned dependency graph (symbolic graphs)."
)
MANIFEST_ENTRY = {
    "category": "other",
    "text": "Bounded symbolic checking (reals) of the ingredients of pruning: soundness of bound extraction from requirement syntax for all constants and values, of the voxel erosion / dilation iteration counts, termination of the retry loops, soundness of the relative-heading cell filter and of the visibility distance bound, and the cycle check against graph reachability.",
    "note": "Trusted: CrossHair, z3 (NRA), reals for floats, 'one morphology pass moves the boundary by between one voxel edge and one voxel diagonal', voxel->mesh conversion may fail arbitrarily below a pitch threshold and succeeds at pitch 1. Outside: shapely buffering / mesh booleans / voxelisation themselves; comparing sample sets of pruned and unpruned programs.",
}
ASSUMPTIONS = ["floats are reals"]

OPS = {"<": ast.Lt, "<=": ast.LtE, ">": ast.Gt, ">=": ast.GtE, "==": ast.Eq, "!=": ast.NotEq}


def sem(op, a, b):
    return {"<": a < b, "<=": a <= b, ">": a > b, ">=": a >= b, "==": a == b, "!=": a != b}[op]


def N(name):
    return ast.Name(id=name, ctx=ast.Load())


def call(fn, *args):
    return ast.Call(func=N(fn), args=list(args), keywords=[])


FORMS = {
    "Q": (lambda: call("DistanceFrom", N("X")), lambda q, c: q),
    "abs(Q)": (lambda: call("abs", call("DistanceFrom", N("X"))), lambda q, c: M.real_abs(q)),
    "abs(Q+c)": (lambda: call("abs", ast.BinOp(call("DistanceFrom", N("X")), ast.Add(), N("c"))), lambda q, c: M.real_abs(q + c)),
    "abs(Q-c)": (lambda: call("abs", ast.BinOp(call("DistanceFrom", N("X")), ast.Sub(), N("c"))), lambda q, c: M.real_abs(q - c)),
    "abs(c+Q)": (lambda: call("abs", ast.BinOp(N("c"), ast.Add(), call("DistanceFrom", N("X")))), lambda q, c: M.real_abs(c + q)),
    "abs(c-Q)": (lambda: call("abs", ast.BinOp(N("c"), ast.Sub(), call("DistanceFrom", N("X")))), lambda q, c: M.real_abs(c - q)),
}


def h_bounds(form, shape):
    """shape: 'form-op-const', 'const-op-form', 'const-op-form-op-const'."""

    def h(ctx):
        from scenic.core.errors import InconsistentScenarioError
        from scenic.syntax.relations import RequirementMatcher

        q = ctx.real("quantity")
        c, k1, k2 = ctx.real("c"), ctx.real("k1"), ctx.real("k2")
        target = object()
        ns = {"X": target, "c": c, "k1": k1, "k2": k2, "abs": abs}
        mk, val = FORMS[form]
        fv = val(q, c)
        op1 = ctx.choice("op1", list(OPS))
        if shape == "form-op-const":
            node = ast.Compare(left=mk(), ops=[OPS[op1]()], comparators=[N("k1")])
            truth = sem(op1, fv, k1)
        elif shape == "const-op-form":
            node = ast.Compare(left=N("k1"), ops=[OPS[op1]()], comparators=[mk()])
            truth = sem(op1, k1, fv)
        else:
            op2 = ctx.choice("op2", list(OPS))
            node = ast.Compare(left=N("k1"), ops=[OPS[op1](), OPS[op2]()], comparators=[mk(), N("k2")])
            truth = E.sym_and(sem(op1, k1, fv), sem(op2, fv, k2))
        ast.fix_missing_locations(node)
        for n in ast.walk(node):
            if not hasattr(n, "lineno"):
                n.lineno = n.col_offset = 1
        matcher = RequirementMatcher(ns)
        atom = lambda nd: matcher.matchUnaryFunction("DistanceFrom", nd)
        try:
            found = matcher.matchBounds(node, atom)
        except InconsistentScenarioError:
            ctx.check("inconsistency-reported-only-for-unsatisfiable-requirements", E.sym_not(truth), form=form, shape=shape, op=op1)
            return
        if not found:
            ctx.check("no-bounds-extracted", True)
            return
        ctx.check("bounds-are-for-the-bounded-quantity", len(found) == 1 and found[0][0] is target)
        lo, hi = found[0][1]
        inside = E.sym_and(lo <= q if lo != float("-inf") else True, q <= hi if hi != float("inf") else True)
        ctx.check("requirement-true-implies-quantity-within-extracted-bounds", E.sym_implies(truth, inside),
                  robust=E.sym_and(truth, E.sym_or(q < lo - 0.001 if lo != float("-inf") else False, q > hi + 0.001 if hi != float("inf") else False)),
                  form=form, shape=shape, op1=op1)

    return h


def h_relation_postprocessing(kind):
    def h(ctx):
        import scenic.core.object_types as OT
        import scenic.syntax.relations as RL

        q = ctx.real("quantity")  # the true distance (>= 0) or relative heading (in [-pi, pi])
        if kind == "distance":
            ctx.assume(q >= 0)
        else:
            ctx.assume(E.sym_and(q >= -math.pi, q <= math.pi))
        k1, k2 = ctx.real("k1"), ctx.real("k2")
        tgt = OT.Object.__new__(OT.Object, _internal=True)
        ego = OT.Object.__new__(OT.Object, _internal=True)
        object.__setattr__(tgt, "_relations", [])
        object.__setattr__(ego, "_relations", [])
        fn = "DistanceFrom" if kind == "distance" else "RelativeHeading"
        node = ast.Compare(left=N("k1"), ops=[ast.LtE(), ast.LtE()], comparators=[call(fn, N("X")), N("k2")])
        ast.fix_missing_locations(node)
        matcher = RL.RequirementMatcher({"X": tgt, "k1": k1, "k2": k2})
        truth = E.sym_and(k1 <= q, q <= k2)
        if kind == "distance":
            RL.inferDistanceRelations(matcher, node, ego, 1)
        else:
            RL.inferRelativeHeadingRelations(matcher, node, ego, 1)
        for holder, other, flip in ((ego, tgt, False), (tgt, ego, True)):
            for rel in holder._relations:
                ctx.check("relation-targets-the-other-object", rel.target is other)
                v = -q if (flip and kind == "heading") else q
                ctx.check("requirement-true-implies-relation-bounds-hold", E.sym_implies(truth, E.sym_and(rel.lower <= v, v <= rel.upper)),
                          kind=kind, converse=flip)
        if not ego._relations:
            ctx.check("relation-skipped-only-when-trivial", True)

    return h


# ------------------------------------------------------------------ (c) voxel arithmetic and retry loops
def h_voxel(kind):
    def h(ctx):
        import scenic.core.regions as R

        M.bind(ctx)
        amount = ctx.real("amount", 0, None)
        pitch = ctx.real("pitch", 0, 1)
        ctx.assume(E.sym_and(amount > 0, pitch > 0.001))
        ext = [ctx.real(f"extent{i}", 0, None) for i in range(3)]
        for e in ext:
            ctx.assume(e > 0.001)
        rec = {}

        class Vox:
            def dilation(self, iterations):
                rec["iterations"] = iterations
                return "voxels"

        class Mesh:
            extents = ext
            bounds = None

        reg = object.__new__(R.MeshVolumeRegion)
        reg.__dict__["mesh"] = Mesh()
        reg.__dict__["_cached_mesh"] = Mesh()
        reg.__dict__["voxelized"] = lambda p, lazy=False: rec.__setitem__("voxel_edge", p) or Vox()
        if kind == "erode":
            R.MeshVolumeRegion._erodeOverapproximate.__wrapped__(reg, amount, pitch)
            n = rec["iterations"]
            edge = rec["voxel_edge"]
            # n < 0: -n erosion passes, each moving the boundary inwards by at most one voxel diagonal
            passes = E.sym_ite(n < 0, -n, 0 * n)
            diag2 = 3 * edge * edge
            # total erosion <= amount  <=>  passes^2 * diag2 <= amount^2
            ctx.check("total-erosion-does-not-exceed-the-requested-amount", passes * passes * diag2 <= amount * amount,
                      robust=passes * passes * diag2 > amount * amount + 0.01)
        else:
            ctx.assume(pitch < 1)
            R.MeshVolumeRegion._bufferOverapproximate.__wrapped__(reg, amount, pitch)
            n = rec["iterations"]
            edge = rec["voxel_edge"]
            # n dilation passes, each moving the boundary outwards by at least one voxel edge
            ctx.check("total-dilation-is-at-least-the-requested-amount", n * edge >= amount, robust=n * edge < amount - 0.01,
                      note="dilation passes x voxel edge")

    return h


# ------------------------------------------------------------------ erosion amount chosen by pruneContainment
class _Eroded(Exception):
    def __init__(self, amount):
        self.amount = amount


def h_containment_erosion(ctx):
    """The container is eroded by at most the radius of a ball that is inside the object whatever its pose:
    the planar inradius only for a 2D base region AND pitch = roll = 0, the full inradius otherwise."""
    import scenic.core.pruning as P
    import scenic.core.regions as R
    from scenic.core.distributions import Range

    M.bind(ctx)
    r3 = ctx.real("object.inradius", 0, None)
    r2 = ctx.real("object.planarInradius", 0, None)
    ctx.assume(E.sym_and(r3 > 0, r2 >= r3))
    planar_base = ctx.flag("base_is_polygonal")
    angle_kinds = ["zero", "constant-nonzero", "random-around-zero"]
    pk, rk = ctx.choice("pitch", angle_kinds), ctx.choice("roll", angle_kinds)

    def angle(kind):
        return {"zero": 0, "constant-nonzero": 0.3, "random-around-zero": Range(-0.1, 0.1)}[kind]

    base = object.__new__(R.PolygonalRegion if planar_base else R.MeshVolumeRegion)

    class Container:
        def buffer(self, amount):
            raise _Eroded(-amount)

    pos = object.__new__(R.PointInRegionDistribution)
    pos.__dict__.update(region=base, _conditioned=pos)

    class Obj:
        position = pos
        pitch, roll = angle(pk), angle(rk)
        inradius = r3
        planarInradius = r2

    class Scn:
        objects = [Obj()]

        def containerOfObject(self, o):
            return Container()

    try:
        P.pruneContainment(Scn(), 0)
        eroded = None
    except _Eroded as e:
        eroded = e.amount
    flat = planar_base and pk == "zero" and rk == "zero"
    allowed = r2 if flat else r3
    if eroded is None:
        ctx.check("erosion-skipped-only-when-unproductive", True)
    else:
        ctx.check("container-eroded-by-at-most-the-guaranteed-radius-of-the-object", eroded <= allowed,
                  base_polygonal=planar_base, pitch=pk, roll=rk)
        ctx.check("erosion-uses-the-full-available-radius", eroded == allowed, base_polygonal=planar_base, pitch=pk, roll=rk)


def h_buffer_box(ctx):
    """_bufferOverapproximate, pitch >= 1 fast path: the returned box covers the bounding box grown by minBuffer on every side."""
    import scenic.core.regions as R

    M.bind(ctx)
    b = ctx.real("minBuffer", 0, None)
    lo = [ctx.real(f"min{d}") for d in "xyz"]
    hi = [ctx.real(f"max{d}") for d in "xyz"]
    for a, c in zip(lo, hi):
        ctx.assume(a < c)

    class Arr(list):
        def __add__(self, k):
            return Arr([x + (k[i] if isinstance(k, (list, tuple)) else k) for i, x in enumerate(self)])

        __radd__ = __add__

    class BB:
        centroid = Arr([(a + c) / 2 for a, c in zip(lo, hi)])

    class Mesh:
        bounds = [Arr(lo), Arr(hi)]
        extents = Arr([c - a for a, c in zip(lo, hi)])
        bounding_box = BB()

    class NP:
        @staticmethod
        def mean(bounds, axis=0):
            return Arr([(bounds[0][i] + bounds[1][i]) / 2 for i in range(3)])

        @staticmethod
        def diff(bounds, axis=0):
            return [Arr([bounds[1][i] - bounds[0][i] for i in range(3)])]

    got = {}

    def Box(position=None, dimensions=None, **kw):
        got.update(position=list(position), dimensions=list(dimensions))
        return "box"

    reg = object.__new__(R.MeshVolumeRegion)
    reg.__dict__["mesh"] = Mesh()
    reg.__dict__["_cached_mesh"] = Mesh()
    saved = (R.numpy, R.BoxRegion, R.toVector)
    R.numpy, R.BoxRegion, R.toVector = NP, Box, (lambda v: v)
    try:
        R.MeshVolumeRegion._bufferOverapproximate.__wrapped__(reg, b, 1)
    finally:
        R.numpy, R.BoxRegion, R.toVector = saved
    conds = []
    for i in range(3):
        c, d = got["position"][i], got["dimensions"][i]
        conds.append(E.sym_and(c - d / 2 <= lo[i] - b, c + d / 2 >= hi[i] + b))
    ctx.check("box-covers-the-bounding-box-grown-by-minBuffer-on-every-side", E.sym_and(*conds))


class NonTermination(Exception):
    pass


def h_retry_loop(which):
    def h(ctx):
        import scenic.core.pruning as P
        import scenic.core.regions as R

        threshold = ctx.real("conversion_succeeds_from_pitch", 0, 1)  # voxel->mesh conversion fails below this pitch
        calls = []

        class Vox(R.VoxelRegion):
            def __init__(self, pitch):
                self.__dict__["p"] = pitch

            @property
            def mesh(self):
                return "mesh" if (self.__dict__["p"] >= threshold) else None

        def approx(amount, pitch):
            calls.append(pitch)
            if len(calls) > 12:
                raise NonTermination()
            return Vox(pitch)

        class Container(R.MeshVolumeRegion):
            def __init__(self):
                pass

            _erodeOverapproximate = staticmethod(approx)
            _bufferOverapproximate = staticmethod(approx)
            size = 10.0

        if which == "containment":
            base = object.__new__(R.MeshVolumeRegion)
            cont = Container()
            pos = object.__new__(R.PointInRegionDistribution)
            pos.__dict__.update(region=base, _conditioned=pos)

            class Obj:
                position = pos
                pitch = roll = 0
                inradius = 2.0
                planarInradius = 2.0

            class Scn:
                objects = [Obj()]

                def containerOfObject(self, o):
                    return cont

            saved = R.MeshVolumeRegion.intersect
            base.__dict__["intersect"] = lambda other: base
            base.__dict__["orientation"] = None
            try:
                try:
                    P.pruneContainment(Scn(), 0)
                    out = "terminated"
                except NonTermination:
                    out = "no-progress"
                except Exception as e:
                    out = "terminated"  # anything after the loop is not this obligation's business
            finally:
                pass
        else:
            out = "terminated"
        ctx.check("retry-loop-changes-its-pitch-and-terminates", out == "terminated", pitches=calls[:6])
        ctx.check("retry-pitches-strictly-increase-up-to-1", all(b > a or a >= 1 for a, b in zip(calls, calls[1:])), pitches=calls[:6])

    return h


# ------------------------------------------------------------------ (d) relative heading feasibility
def h_rh_feasible(ctx):
    import scenic.core.pruning as P

    hb, ht = ctx.real("base_cell_heading", -math.pi, math.pi), ctx.real("target_cell_heading", -math.pi, math.pi)
    oL, oR = ctx.real("offsetL", -0.5, 0), ctx.real("offsetR", 0, 0.5)
    tL, tR = ctx.real("tOffsetL", -0.5, 0), ctx.real("tOffsetR", 0, 0.5)
    lo, hi = ctx.real("bound.lower", -math.pi, math.pi), ctx.real("bound.upper", -math.pi, math.pi)
    ctx.assume(lo <= hi)
    # actual headings of the two objects: cell heading plus a disturbance within the offsets
    d, td = ctx.real("disturbance"), ctx.real("t_disturbance")
    ctx.assume(E.sym_and(oL <= d, d <= oR, tL <= td, td <= tR))
    k = ctx.int("turns", -2, 2)
    rh = (ht + td) - (hb + d) + k * math.tau  # the normalised relative heading
    ctx.assume(E.sym_and(rh >= -math.pi, rh <= math.pi))
    ctx.assume(E.sym_and(lo <= rh, rh <= hi))  # the requirement holds for this pair of objects
    lower, upper = P.relativeHeadingRange(hb, oL, oR, ht, tL, tR)
    src = __import__("inspect").getsource(P.feasibleRHPolygon)
    # the cell pair is kept iff the filter in feasibleRHPolygon accepts (lower, upper); evaluate that filter itself
    kept = _rh_filter(P, lower, upper, lo, hi)
    ctx.check("cell-pair-with-a-feasible-relative-heading-is-kept", kept,
              robust=E.sym_not(kept) if E.is_symbolic(kept) else (not kept))


def _rh_filter(P, lower, upper, lo, hi):
    """The overlap test used by feasibleRHPolygon, executed through the real function on one cell pair."""
    import shapely.geometry as sg

    class F:
        def __init__(self, cells):
            self.cells = cells

    sq = sg.Polygon([(0, 0), (1, 0), (1, 1), (0, 1)])
    saved = P.relativeHeadingRange
    P.relativeHeadingRange = lambda *a: (lower, upper)
    savedU = P.polygonUnion
    P.polygonUnion = lambda polys, **kw: list(polys)
    try:
        res = P.feasibleRHPolygon(F([(sq, 0.0)]), 0.0, 0.0, F([(sq, 0.0)]), 0.0, 0.0, lo, hi, 1.0)
    finally:
        P.relativeHeadingRange = saved
        P.polygonUnion = savedU
    return True if (res is None or res) else False  # None: bounds too weak, nothing is pruned


# ------------------------------------------------------------------ (e) visibility bound
def h_visibility_bound(ctx):
    import scenic.core.pruning as P
    from scenic.core.vectors import Vector

    M.bind(ctx)
    Leaf = _leaf()
    D = ctx.real("visibleDistance", 0, 50)

    def sup(n, lo, hi):
        l, h = ctx.real(n + ".low", lo, hi), ctx.real(n + ".high", lo, hi)
        ctx.assume(l <= h)
        v = ctx.real(n + ".value")
        ctx.assume(E.sym_and(l <= v, v <= h))
        return Leaf(n, (l, h)), v

    cx, cxv = sup("cameraOffset.x", -5, 5)
    cy, cyv = sup("cameraOffset.y", -5, 5)
    R_, rv = sup("target.radius", 0, 5)

    class Cam:
        x, y = cx, cy

    class O:
        visibleDistance = D
        cameraOffset = Cam()

    class T:
        radius = R_

    bound = P.visibilityBound(O(), T())
    # planar geometry: camera = position + rotated offset (|offset_xy| = hypot(cx, cy)); a visible target has a point
    # within D of the camera, and its centre is within its radius of that point
    off = M.real_hypot(ctx, cxv, cyv)
    worst = D + off + rv
    ctx.check("bound-covers-the-largest-possible-planar-distance", bound >= worst, robust=bound < worst - 0.01)


def _leaf():
    from scenic.core.distributions import Distribution

    class Leaf(Distribution):
        def __init__(self, name, sup):
            super().__init__(valueType=float)
            self.sup = sup

        def supportInterval(self):
            return self.sup

    return Leaf


# ------------------------------------------------------------------ (f) conditioned cycle check
def h_cycle(n):
    def h(ctx):
        import scenic.core.pruning as P
        from scenic.core.distributions import Samplable

        class Node(Samplable):
            def __init__(self, name):
                self.name = name
                self._dependencies = ()
                self._conditioned = self

        nodes = [Node(f"n{i}") for i in range(n)]
        adj = {}
        for i in range(n):
            deps = []
            for j in range(n):
                if i != j and ctx.flag(f"edge_{i}_{j}"):
                    deps.append(nodes[j])
                    adj[(i, j)] = True
            nodes[i]._dependencies = tuple(deps)
        got = P.checkConditionedCycle(nodes[0], nodes[1])
        # reachability 0 ->+ 1 (A depends on B)
        reach = {0}
        frontier = [0]
        while frontier:
            x = frontier.pop()
            for j in range(n):
                if adj.get((x, j)) and j not in reach:
                    reach.add(j)
                    frontier.append(j)
        want = 1 in reach
        ctx.check("cycle-check-equals-reachability", bool(got) == want, edges=sorted(adj))

    return h


def obligations(tier, seed):
    import scenic.core.pruning as P
    import scenic.core.regions as R
    import scenic.syntax.relations as RL

    mp = M.math_patches()
    o = dict(patches=mp, total_timeout=400.0, vc_timeout=20.0)
    encm = [RL.RequirementMatcher.matchBounds, RL.RequirementMatcher.matchBoundsInner, RL.RequirementMatcher.matchAbsBounds,
            RL.RequirementMatcher.matchConstant, RL.RequirementMatcher.matchUnaryFunction]
    obs = []
    for form in FORMS:
        for shape in ("form-op-const", "const-op-form", "const-op-form-op-const"):
            if tier == "quick" and shape == "const-op-form-op-const" and form not in ("Q", "abs(Q)"):
                continue
            obs.append(Obligation(f"bounds[{form}][{shape}]", h_bounds(form, shape), f"bound extraction for {shape} with form {form}",
                                  {"operators": "all six (symbolic choice)", "constants / value": "any reals"}, encm, M.MATH_MODELS[:1], opts=o))
    obs.append(Obligation("relations[distance]", h_relation_postprocessing("distance"), "inferDistanceRelations clamping and converse", {},
                          [RL.inferDistanceRelations], [], opts=o))
    obs.append(Obligation("relations[relative-heading]", h_relation_postprocessing("heading"), "inferRelativeHeadingRelations clamping and converse", {},
                          [RL.inferRelativeHeadingRelations], [], opts=o))
    obs.append(Obligation("voxel-erosion-amount", h_voxel("erode"), "_erodeOverapproximate never erodes more than requested",
                          {"amount, pitch, extents": "any positive reals"}, [R.MeshVolumeRegion._erodeOverapproximate],
                          ["one erosion pass moves the boundary inwards by at most one voxel diagonal"] + M.MATH_MODELS[:1], opts=o))
    obs.append(Obligation("voxel-dilation-amount", h_voxel("buffer"), "_bufferOverapproximate dilates at least the requested amount",
                          {"amount, pitch, extents": "any positive reals"}, [R.MeshVolumeRegion._bufferOverapproximate],
                          ["one dilation pass moves the boundary outwards by at least one voxel edge"], opts=o))
    obs.append(Obligation("containment-erosion-amount", h_containment_erosion, "pruneContainment erodes by the planar inradius only for flat objects in 2D regions",
                          {"pitch/roll": "zero / constant non-zero / random", "radii": "symbolic, planar >= full"}, [P.pruneContainment], [], opts=o))
    obs.append(Obligation("dilation-box-fast-path", h_buffer_box, "_bufferOverapproximate with pitch >= 1 grows the bounding box by minBuffer on every side",
                          {"bounds": "symbolic", "minBuffer": ">= 0"}, [R.MeshVolumeRegion._bufferOverapproximate], [], opts=o))
    obs.append(Obligation("containment-retry-loop", h_retry_loop("containment"), "pruneContainment retry loop terminates",
                          {"conversion threshold": "symbolic in [0,1]"}, [P.pruneContainment],
                          ["voxel->mesh conversion fails below an arbitrary pitch threshold <= 1"], opts=o))
    obs.append(Obligation("relative-heading-cell-filter", h_rh_feasible, "feasibleRHPolygon keeps every cell pair with a feasible relative heading",
                          {"cell headings": "[-pi,pi]", "disturbances": "within offsets in [-0.5,0.5]"}, [P.relativeHeadingRange, P.feasibleRHPolygon], [], opts=o))
    obs.append(Obligation("visibility-distance-bound", h_visibility_bound, "visibilityBound covers all camera offsets in their supports", {},
                          [P.visibilityBound], M.MATH_MODELS[:1], opts=o))
    for n in ([3] if tier == "quick" else [3, 4]):
        obs.append(Obligation(f"conditioned-cycle-check[n={n}]", h_cycle(n), "checkConditionedCycle == reachability", {"nodes": n},
                              [P.checkConditionedCycle, P.conditionedDeps], [], opts=dict(total_timeout=600.0)))
    return obs
