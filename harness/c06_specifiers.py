"""C06 - specifier resolution follows the documented priorities, whatever the order."""
import itertools
import random
import re

from symx import engine as E
from symx.runner import Obligation

PROPERTY = "C06"
PRELOAD = ["scenic.core.object_types", "scenic.core.specifiers", "scenic.syntax.veneer"]
LEVEL = "other"
EXPLANATION = (
    "Constructible._resolveSpecifiers (the real resolution procedure) is executed symbolically on "
    "sets of stub specifiers whose priorities are symbolic integers and whose textual order is a "
    "symbolic permutation; the structure (which specifier mentions which property, dependencies, "
    "modifying flag, class defaults, final properties) is enumerated/generated concretely.  On every "
    "path z3 decides (a) outcome(order pi) == outcome(written order) - values or error class - and (b) "
    "outcome == a declarative oracle written from docs/reference/specifiers.rst, and (c) every value "
    "thunk saw the final values of its dependencies.  A ground check compares the priorities / "
    "dependencies of every built-in specifier object with the tables parsed from specifiers.rst."
)
MANIFEST_ENTRY = {
    "category": "other",
    "text": "Bounded symbolic checking of the real specifier-resolution procedure: for every assignment of priorities (1..3) and every written order of up to 3-4 stub specifiers over up to 3 properties (structures enumerated / seeded), z3 decides on each path that the outcome equals the declarative oracle from the reference and is order independent; plus a ground comparison of all built-in specifier tables with docs/reference/specifiers.rst.",
    "note": "Trusted: CrossHair, z3, the oracle transcribed from the reference (ambiguity = tie at the winning priority), stub specifiers standing for the built-in ones (at most one modifying specifier per object, as in the language). Outside: more than 4 specifiers, user-defined modifying specifiers, geometric meaning of the values (C07).",
}
ASSUMPTIONS = [
    "at most one modifying specifier per object (the language has only `on`)",
    "priorities in 1..3 (the range used by the built-in specifiers)",
]

PROPS = ["pa", "pb", "pc"]


def make_class_chain(levels, tag):
    """A chain of Scenic classes, base first; levels[i] = {prop: (deps, additive)}."""
    from scenic.core.object_types import Constructible
    from scenic.core.specifiers import PropertyDefault

    base = Constructible
    for li, table in enumerate(levels):
        tbl = {}
        for prop, (deps, additive) in table.items():
            def mk(prop=prop, deps=tuple(deps), li=li):
                def value(context):
                    seen = tuple((d, getattr(context, d)) for d in deps)
                    LOG.append((f"default.L{li}", prop, seen))
                    return f"L{li}.{prop}" + "".join(f"[{d}={v}]" for d, v in seen)

                return value

            tbl[prop] = PropertyDefault(set(deps), {"additive"} if additive else set(), mk())
        base = type(f"K{tag}L{li}", (base,), {"_scenic_properties": tbl})
    return base


def make_class(defaults, finals, tag):
    """A Scenic class (subclass of Constructible) with the given default table."""
    from scenic.core.object_types import Constructible
    from scenic.core.specifiers import PropertyDefault

    table = {}
    for prop, deps in defaults.items():
        attrs = {"final"} if prop in finals else set()

        def mk(prop=prop, deps=tuple(deps)):
            def value(context):
                seen = tuple((d, getattr(context, d)) for d in deps)
                LOG.append(("default", prop, seen))
                return f"default.{prop}" + "".join(f"[{d}={v}]" for d, v in seen)

            return value

        table[prop] = PropertyDefault(set(deps), attrs, mk())
    return type(f"K{tag}", (Constructible,), {"_scenic_properties": table})


LOG = []


def make_spec(i, sdesc, prios):
    """Stub specifier i. sdesc = dict(props=[..], deps=[..], modifying=bool, modifiable=[..])."""
    from scenic.core.lazy_eval import DelayedArgument
    from scenic.core.specifiers import ModifyingSpecifier, Specifier

    props, deps = sdesc["props"], tuple(sdesc["deps"])

    def value(context):
        seen = tuple((d, getattr(context, d)) for d in deps)
        LOG.append((f"s{i}", tuple(props), seen))
        out = {}
        for p in props:
            if sdesc.get("modifying") and p in sdesc.get("modifiable", ()) and hasattr(context, p):
                out[p] = f"mod{i}({getattr(context, p)})"
            else:
                out[p] = f"s{i}.{p}" + "".join(f"[{d}={v}]" for d, v in seen)
        return out

    val = DelayedArgument(set(deps), value, _internal=True)
    pr = {p: prios[(i, p)] for p in props}
    if sdesc.get("modifying"):
        return ModifyingSpecifier(f"spec{i}", pr, val, list(sdesc.get("modifiable", ())))
    return Specifier(f"spec{i}", pr, val)


def run_real(cls, specs):
    from scenic.core.errors import SpecifierError

    del LOG[:]
    try:
        props, _consts = cls._resolveSpecifiers(specs)
        return ("ok", dict(props), list(LOG))
    except SpecifierError as e:
        return ("SpecifierError", None, list(LOG))


def oracle(struct, prios):
    """Declarative resolution per docs/reference/specifiers.rst.  Returns ('ok', values) or ('SpecifierError', None)."""
    specs = struct["specs"]
    defaults, finals = struct["defaults"], struct["finals"]
    levels = struct.get("levels")
    if levels:
        # most derived class wins; an additive default concatenates the values of all levels (derived first)
        # and needs the dependencies of all of them
        defaults, dvalue = {}, {}
        for p in PROPS:
            defs = [(li, levels[li][p]) for li in reversed(range(len(levels))) if p in levels[li]]
            if not defs:
                continue
            (li0, (deps0, add0)) = defs[0]
            if add0:
                alldeps = []
                for _li, (dd, _a) in defs:
                    alldeps += [d for d in dd if d not in alldeps]
                defaults[p] = sorted(alldeps)
                dvalue[p] = ("additive", [(li, list(dd)) for li, (dd, _a) in defs])
            else:
                defaults[p] = sorted(deps0)
                dvalue[p] = ("plain", [(li0, list(deps0))])
    normal = [i for i, s in enumerate(specs) if not s.get("modifying")]
    mods = [i for i, s in enumerate(specs) if s.get("modifying")]
    for i in normal:
        for p in specs[i]["props"]:
            if p in finals:
                return ("SpecifierError", None)
    winner, best = {}, {}
    for p in PROPS:
        cands = [i for i in normal if p in specs[i]["props"]]
        if not cands:
            continue
        b = prios[(cands[0], p)]
        for i in cands[1:]:
            if prios[(i, p)] < b:
                b = prios[(i, p)]
        top = [i for i in cands if prios[(i, p)] == b]
        if len(top) > 1:
            return ("SpecifierError", None)  # ambiguity: tie at the winning priority
        winner[p], best[p] = top[0], b
    modifying = {}
    for i in mods:
        for p in specs[i]["props"]:
            if p in winner:
                if prios[(i, p)] < best[p]:
                    winner[p], best[p] = i, prios[(i, p)]
                elif p in specs[i].get("modifiable", ()):
                    modifying[p] = i
            else:
                winner[p], best[p] = i, prios[(i, p)]
    provider = dict(winner)
    nodes = [("s", i) for i in range(len(specs))]
    for p in defaults:
        if p not in winner:
            provider[p] = ("d", p)
            nodes.append(("d", p))
    # dependency graph over all specifiers that take part (every written specifier is evaluated)
    def deps_of(node):
        return specs[node[1]]["deps"] if node[0] == "s" else defaults[node[1]]

    def prov(p):
        if p in modifying:
            return ("s", modifying[p])
        w = provider.get(p)
        if w is None:
            return None
        return w if isinstance(w, tuple) else ("s", w)

    edges = {}
    for nd in nodes:
        outs = []
        for d in deps_of(nd):
            t = prov(d)
            if t is None:
                return ("SpecifierError", None)  # missing dependency
            outs.append(t)
        if nd[0] == "s":
            for p, m in modifying.items():
                if m == nd[1]:
                    w = provider[p]
                    outs.append(w if isinstance(w, tuple) else ("s", w))
        edges[nd] = outs
    state = {}

    def dfs(nd):
        if state.get(nd) == 2:
            return True
        if state.get(nd) == 1:
            return False
        state[nd] = 1
        for t in edges[nd]:
            if not dfs(t):
                return False
        state[nd] = 2
        order.append(nd)
        return True

    order = []
    for nd in nodes:
        if not dfs(nd):
            return ("SpecifierError", None)  # cyclic dependencies
    values = {}
    for nd in order:
        seen = "".join(f"[{d}={values[d]}]" for d in deps_of(nd))
        if nd[0] == "d":
            if levels:
                kind, parts = dvalue[nd[1]]
                vals = tuple(f"L{li}.{nd[1]}" + "".join(f"[{d}={values[d]}]" for d in dd) for li, dd in parts)
                values[nd[1]] = vals if kind == "additive" else vals[0]
            else:
                values[nd[1]] = f"default.{nd[1]}" + seen
            continue
        i = nd[1]
        for p in specs[i]["props"]:
            if modifying.get(p) == i:
                values[p] = f"mod{i}({values[p]})"
            elif provider.get(p) == i:
                values[p] = f"s{i}.{p}" + seen
    return ("ok", values)


def harness_for(struct, check_oracle=True):
    n = len(struct["specs"])
    perms = list(itertools.permutations(range(n)))

    def h(ctx):
        cls = struct.setdefault("_cls", None) or (
            make_class_chain(struct["levels"], struct["tag"]) if struct.get("levels")
            else make_class(struct["defaults"], struct["finals"], struct["tag"]))
        struct["_cls"] = cls
        prios = {}
        for i, s in enumerate(struct["specs"]):
            for p in s["props"]:
                prios[(i, p)] = ctx.int(f"prio_s{i}_{p}", 1, 3)
        perm = ctx.choice("order", perms)
        base = run_real(cls, [make_spec(i, struct["specs"][i], prios) for i in range(n)])
        permuted = run_real(cls, [make_spec(i, struct["specs"][i], prios) for i in perm])
        ctx.check("order-independent-outcome",
                  base[0] == permuted[0] and base[1] == permuted[1],
                  written=list(range(n)), permuted=list(perm), base=base[:2], perm_result=permuted[:2])
        if check_oracle:
            want = oracle(struct, prios)
            for tag, got in (("written-order", base), ("permuted-order", permuted)):
                ctx.check(f"matches-reference-resolution[{tag}]",
                          got[0] == want[0] and (got[1] is None or all(got[1].get(p) == v for p, v in want[1].items())
                                                 and set(got[1]) == set(want[1])),
                          got=got[:2], want=want)
        # every thunk saw the final values of its dependencies
        for got in (base, permuted):
            if got[0] == "ok":
                for who, _props, seen in got[2]:
                    for d, v in seen:
                        ctx.check("dependency-final-when-read", got[1][d] == v, reader=who, dep=d, saw=v,
                                  final=got[1][d])

    return h


def system_replay_for(struct):
    def rp(cex):
        ok, detail = E.replay(harness_for(struct), cex.get("inputs") or {})
        return ok, detail

    return rp


# ----------------------------------------------------------------------------- structures
def hand_structs():
    S = []
    # three specifiers on one property (the 1,3,3 / 3,3,1 shape)
    S.append(dict(tag="same3", specs=[dict(props=["pa"], deps=[]), dict(props=["pa"], deps=[]), dict(props=["pa"], deps=[])],
                  defaults={"pa": [], "pb": []}, finals=set()))
    # position-like + optional second property, dependency of a default on a specified property
    S.append(dict(tag="opt", specs=[dict(props=["pa", "pb"], deps=[]), dict(props=["pb"], deps=[]), dict(props=["pc"], deps=["pa"])],
                  defaults={"pa": [], "pb": ["pa"], "pc": []}, finals=set()))
    # modifying specifier (like `on`): modifies pa, optionally specifies pb, depends on pc
    S.append(dict(tag="mod", specs=[dict(props=["pa", "pb"], deps=[]),
                                    dict(props=["pa", "pb"], deps=["pc"], modifying=True, modifiable=["pa"]),
                                    dict(props=["pb"], deps=[])],
                  defaults={"pa": [], "pb": [], "pc": []}, finals=set()))
    # cyclic dependencies between two specifiers, and a loser specifier with a dependency
    S.append(dict(tag="cyc", specs=[dict(props=["pa"], deps=["pb"]), dict(props=["pb"], deps=["pa"]), dict(props=["pa"], deps=[])],
                  defaults={"pa": [], "pb": [], "pc": []}, finals=set()))
    # final property specified directly / missing dependency (pc has no default)
    S.append(dict(tag="final", specs=[dict(props=["pa"], deps=[]), dict(props=["pb"], deps=[])],
                  defaults={"pa": [], "pb": ["pa"]}, finals={"pb"}))
    S.append(dict(tag="missing", specs=[dict(props=["pa"], deps=["pc"]), dict(props=["pb"], deps=[]), dict(props=["pa"], deps=[])],
                  defaults={"pa": [], "pb": []}, finals=set()))
    # modifying specifier whose modified value is read by a default
    S.append(dict(tag="modread", specs=[dict(props=["pa"], deps=[]),
                                        dict(props=["pa"], deps=[], modifying=True, modifiable=["pa"])],
                  defaults={"pa": [], "pb": ["pa"], "pc": ["pb"]}, finals=set()))
    # a tie on pa (s0, s1) and a later-written specifier overriding pb: ambiguity must not be forgotten
    S.append(dict(tag="tie-and-override", specs=[dict(props=["pa", "pb"], deps=[]), dict(props=["pa"], deps=[]), dict(props=["pb"], deps=[])],
                  defaults={"pa": [], "pb": [], "pc": []}, finals=set()))
    S.append(dict(tag="tie-and-override2", specs=[dict(props=["pb"], deps=[]), dict(props=["pa", "pc"], deps=[]), dict(props=["pa", "pb"], deps=[]),
                                                  dict(props=["pc"], deps=[])],
                  defaults={"pa": [], "pb": [], "pc": []}, finals=set()))
    # class-level merging of defaults: additive over plain with a self-dependency, plain over additive, ...
    S.append(dict(tag="additive-over-plain", specs=[dict(props=["pc"], deps=[])], defaults={}, finals=set(),
                  levels=[{"pa": (["pb"], False), "pb": ([], False)}, {"pa": ([], True), "pc": ([], False)}]))
    S.append(dict(tag="additive-chain", specs=[dict(props=["pb"], deps=[])], defaults={}, finals=set(),
                  levels=[{"pa": (["pc"], True), "pc": ([], False)}, {"pa": (["pb"], True), "pb": ([], False)}, {"pa": ([], True)}]))
    S.append(dict(tag="plain-over-additive", specs=[dict(props=["pb"], deps=["pa"])], defaults={}, finals=set(),
                  levels=[{"pa": (["pc"], True), "pc": ([], False), "pb": ([], False)}, {"pa": ([], False)}]))
    return S


def gen_structs(seed, count, nmax):
    rnd = random.Random(1000 + seed)
    out = []
    for k in range(count):
        n = rnd.choice([2, 3] if nmax == 3 else [3, 4])
        specs = []
        has_mod = False
        for i in range(n):
            props = [p for p in PROPS if rnd.random() < 0.5] or [rnd.choice(PROPS)]
            deps = [p for p in PROPS if p not in props and rnd.random() < 0.3]
            s = dict(props=props, deps=deps)
            if not has_mod and rnd.random() < 0.25:
                s.update(modifying=True, modifiable=[props[0]])
                has_mod = True
            specs.append(s)
        defaults = {}
        for p in PROPS:
            if rnd.random() < 0.8:
                defaults[p] = [q for q in PROPS if q != p and rnd.random() < 0.25]
        finals = {p for p in defaults if rnd.random() < 0.1}
        out.append(dict(tag=f"gen{seed}_{k}", specs=specs, defaults=defaults, finals=finals))
    return out


# ----------------------------------------------------------------------------- ground check
def parse_reference():
    """Parse 'Specifies' / 'Dependencies' blocks of docs/reference/specifiers.rst."""
    txt = open("/repo/docs/reference/specifiers.rst").read()
    secs = re.split(r"\n(?=[^\n]+\n-{5,}\n)", txt)
    table = {}
    for sec in secs:
        m = re.match(r"([^\n]+)\n-{5,}\n", sec)
        if not m or "**Specifies**" not in sec:
            continue
        title = m.group(1).strip()
        spec_block = sec.split("**Specifies**")[1].split("**Dependencies**")[0]
        entries = []
        for line in spec_block.splitlines():
            mm = re.search(r":prop:`(\w+)` with priority (\d)(.*)", line)
            if mm:
                entries.append((mm.group(1), int(mm.group(2)), "(if" in mm.group(3), "modifies" in mm.group(3)))
            elif "the given property" in line:
                entries.append(("<given>", 1, False, False))
        dep_line = sec.split("**Dependencies**")[1].split("\n")[0]
        deps = re.findall(r":prop:`(\w+)`", dep_line)
        table[title] = (entries, deps, "(if" in dep_line or "if " in dep_line.lower())
    return table


def builtin_specifiers():
    """One representative instance of each built-in specifier, keyed by its reference title."""
    import scenic.syntax.veneer as v
    from scenic.core.object_types import Object, OrientedPoint, Point
    from scenic.core.regions import CircularRegion, everywhere
    from scenic.core.vectors import Vector, VectorField, Orientation

    from scenic.syntax.translator import CompileOptions

    v.activate(CompileOptions())  # specifiers are only constructed while compiling
    try:
        vf = VectorField("vf", lambda pos: 0.5)
        reg_plain = CircularRegion(Vector(0, 0), 5)
        reg_oriented = CircularRegion(Vector(0, 0), 5)
        reg_oriented.orientation = vf
        op = OrientedPoint._with(position=Vector(1, 2, 0), yaw=0.3)
        pt = Point._with(position=Vector(1, 2, 0))
        ob = Object._with(position=Vector(3, 4, 0), yaw=0.2)
        ego = Object._with(position=Vector(30, 4, 0))
        v.ego(ego)
        inst = {
            "with *property* *value*": [("plain", v.With("color", 3))],
            "at *vector*": [("plain", v.At(Vector(1, 2, 3)))],
            "in *region*": [("plain", v.In(reg_plain)), ("cond", v.In(reg_oriented))],
            "contained in *region*": [("plain", v.ContainedIn(reg_plain)), ("cond", v.ContainedIn(reg_oriented))],
            "on (*region* | *Object* | *vector*)": [("plain", v.On(reg_plain)), ("cond", v.On(reg_oriented))],
            "offset by *vector*": [("plain", v.OffsetBy(Vector(1, 2)))],
            "offset along *direction* by *vector*": [("plain", v.OffsetAlongSpec(0.3, Vector(1, 2)))],
            "beyond *vector* by (*vector* | *scalar*) [from (*vector* | *OrientedPoint*)]": [("plain", v.Beyond(Vector(5, 5), 2))],
            "visible [from (*Point* | *OrientedPoint*)]": [("plain", v.VisibleSpec()), ("plain", v.VisibleFrom(op))],
            "not visible [from (*Point* | *OrientedPoint*)]": [("plain", v.NotVisibleSpec()), ("plain", v.NotVisibleFrom(op))],
            "(left | right) of (*vector*) [by *scalar*]": [("plain", v.LeftSpec(Vector(1, 2))), ("plain", v.RightSpec(Vector(1, 2), dist=2))],
            "(left | right) of *OrientedPoint* [by *scalar*]": [("plain", v.LeftSpec(op)), ("plain", v.RightSpec(op, dist=2))],
            "(left | right) of *Object* [by *scalar*]": [("plain", v.LeftSpec(ob)), ("plain", v.RightSpec(ob, dist=2))],
            "(ahead of | behind) *vector* [by *scalar*]": [("plain", v.Ahead(Vector(1, 2))), ("plain", v.Behind(Vector(1, 2), dist=1))],
            "(ahead of | behind) *OrientedPoint* [by *scalar*]": [("plain", v.Ahead(op)), ("plain", v.Behind(op, dist=1))],
            "(ahead of | behind) *Object* [by *scalar*]": [("plain", v.Ahead(ob)), ("plain", v.Behind(ob, dist=1))],
            "(above | below) *vector* [by *scalar*]": [("plain", v.Above(Vector(1, 2))), ("plain", v.Below(Vector(1, 2), dist=1))],
            "(above | below) *OrientedPoint* [by *scalar*]": [("plain", v.Above(op)), ("plain", v.Below(op, dist=1))],
            "(above | below) *Object* [by *scalar*]": [("plain", v.Above(ob)), ("plain", v.Below(ob, dist=1))],
            "following *vectorField* [from *vector*] for *scalar*": [("plain", v.Following(vf, 3, fromPt=Vector(1, 1)))],
            "facing *orientation*": [("plain", v.Facing(Orientation.fromEuler(0.1, 0, 0)))],
            "facing *vectorField*": [("plain", v.Facing(vf))],
            "facing (toward | away from) *vector*": [("plain", v.FacingToward(Vector(1, 2))), ("plain", v.FacingAwayFrom(Vector(1, 2)))],
            "facing directly (toward | away from) *vector*": [("plain", v.FacingDirectlyToward(Vector(1, 2))),
                                                              ("plain", v.FacingDirectlyAwayFrom(Vector(1, 2)))],
            "apparently facing *heading* [from *vector*]": [("plain", v.ApparentlyFacing(0.3, Vector(1, 2))), ("plain", v.ApparentlyFacing(0.3))],
        }
        return inst
    finally:
        v.deactivate()


def ground_builtin_tables():
    ref = parse_reference()
    inst = builtin_specifiers()
    problems, cases = [], 0
    missing_titles = [t for t in ref if t not in inst]
    for title, variants in inst.items():
        if title not in ref:
            problems.append(f"reference has no section titled {title!r}")
            continue
        entries, deps, deps_cond = ref[title]
        for kind, spec in variants:
            cases += 1
            want = {}
            for prop, prio, cond, _mod in entries:
                if prop == "<given>":
                    want["color"] = prio
                elif not cond or kind == "cond":
                    want[prop] = prio
            got = {k: v for k, v in spec.priorities.items() if not k.startswith('_')}  # internal properties are undocumented
            if got != want:
                problems.append(f"{title} [{kind}]: priorities {got} but reference says {want}")
            gdeps = set(spec.requiredProperties)
            if not (gdeps <= set(deps)) or (not deps_cond and kind == "plain" and False):
                problems.append(f"{title} [{kind}]: dependencies {sorted(gdeps)} not within reference {sorted(deps)}")
    if missing_titles:
        problems.append("reference sections without a representative instance: " + "; ".join(missing_titles))
    return (not problems), " | ".join(problems)[:1500], cases


def obligations(tier, seed):
    from scenic.core.object_types import Constructible
    from scenic.core.specifiers import PropertyDefault, Specifier

    enc = [Constructible._resolveSpecifiers.__func__, Specifier.__init__, PropertyDefault.resolveFor,
           Constructible.__init_subclass__.__func__]
    structs = hand_structs() + gen_structs(seed, 8 if tier == "quick" else 40, 3 if tier == "quick" else 4)
    obs = []
    for st in structs:
        n = len(st["specs"])
        desc = "; ".join(
            f"s{i}{'(modifying)' if s.get('modifying') else ''}: specifies {','.join(s['props'])}"
            + (f" needs {','.join(s['deps'])}" if s["deps"] else "") for i, s in enumerate(st["specs"]))
        obs.append(Obligation(
            f"resolve[{st['tag']}]", harness_for(st),
            f"{desc}; defaults {st['defaults']}; finals {sorted(st['finals'])}",
            {"specifiers": n, "properties": 3, "priorities": "1..3 (symbolic)", "orders": f"all {len(list(itertools.permutations(range(n))))} (symbolic)"},
            enc, ["stub specifiers with string-token values and logging value thunks"],
            opts=dict(total_timeout=(240.0 if tier == "quick" else 1200.0), per_path_timeout=20.0),
            system_replay=None))
    obs.append(Obligation("builtin-specifier-tables", None,
                          "priorities/dependencies of every built-in specifier == docs/reference/specifiers.rst (ground, no symbolic inputs)",
                          {}, [], [], ground=ground_builtin_tables))
    return obs
