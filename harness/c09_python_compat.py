"""C09 - plain Python inside Scenic compiles to exactly what CPython would parse."""
import ast
import glob
import io
import keyword
import os
import random
import sysconfig
import tokenize

from symx import engine as E
from symx.runner import Obligation

PROPERTY = "C09"
PRELOAD = ["scenic", "scenic.syntax.parser", "scenic.syntax.compiler"]
LEVEL = "translation_validation"
EXPLANATION = (
    "(a) Rewrite layer with symbolic positions: ScenicToPythonTransformer.visit_Name / visit_Call / "
    "visit_ClassDef run on AST templates whose identifiers are solver-enumerated choices from a vocabulary "
    "(tracked names, builtins str/int/float, ordinary names), whose context / bases / star arguments are "
    "choices and whose lineno / col_offset / end positions are symbolic integers: the output equals the input "
    "apart from exactly the documented rewrites and every output node carries the input node's position (z3 "
    "decides the position equalities for all values).  (b) Translation validation against CPython: Python "
    "source files and single statements (from the repository, its tests and the standard library; statements "
    "also with one token replaced by a solver-chosen vocabulary item, including every Scenic soft keyword used "
    "as an identifier) are compiled by the real Scenic parser + compiler and compared with ast.parse after "
    "applying a reference implementation of the documented rewrites: ast.dump equality and equal "
    "lineno / end_lineno of all nodes.  The parsers run concretely; the corpus and mutation sites are seeded."
)
MANIFEST_ENTRY = {
    "category": "translation_validation",
    "text": "Translation validation of the Scenic front end against CPython's parser on seeded corpora of Python files and (mutated) statements: every accepted program is compared node by node (structure and line numbers) with ast.parse modulo a reference implementation of the documented rewrites; plus symbolic checking of position preservation in the rewrite layer.",
    "note": "Trusted: CPython's ast.parse as oracle, the reference rewriter (names -> accessor calls, str/int/float -> lifted, star arguments wrapped, base-less classes derive from Object, property table appended). Excluded inputs (stated): sources using Scenic's hard keywords (at, by, do, new, of, on, require, to, until) or the tracked names as identifiers, annotated assignments in class bodies (Scenic property syntax). A symbolic source text concretises at the first token, so agreement on ALL Python modules is not claimed.",
}
ASSUMPTIONS = ["corpus and mutation sites are seeded samples (VERIF_SEED)"]

HARD = {"at", "by", "do", "new", "of", "on", "require", "to", "until"}
TRACKED = {"ego", "workspace", "globalParameters"}


def scenic_keywords():
    from scenic.syntax.parser import ScenicParser

    hard = set(ScenicParser.KEYWORDS) - set(keyword.kwlist)
    return hard, set(ScenicParser.SOFT_KEYWORDS)


# ------------------------------------------------------------------ reference rewriter (documented rewrites)
class RefRewriter(ast.NodeTransformer):
    def visit_Name(self, node):
        if node.id in TRACKED and isinstance(node.ctx, ast.Load):
            return ast.copy_location(ast.Call(ast.Name(node.id, ast.Load()), [], []), node)
        return node

    def visit_Call(self, node):
        self.generic_visit(node)
        if isinstance(node.func, ast.Name) and node.func.id in ("str", "int", "float"):
            node.func.id = {"str": "_toStrScenic", "int": "_toIntScenic", "float": "_toFloatScenic"}[node.func.id]
        if any(isinstance(a, ast.Starred) for a in node.args):
            args = []
            for a in node.args:
                if isinstance(a, ast.Starred):
                    w = ast.Call(ast.Name("wrapStarredValue", ast.Load()), [a.value, ast.Constant(a.value.lineno)], [])
                    args.append(ast.Starred(w, ast.Load()))
                else:
                    args.append(a)
            new = ast.Call(ast.Name("callWithStarArgs", ast.Load()), [node.func] + args, node.keywords)
            return ast.copy_location(new, node)
        return node

    def visit_ClassDef(self, node):
        if not node.bases:
            node.bases = [ast.Name("Object", ast.Load())]
        node.body = list(node.body) + [ast.Assign(targets=[ast.Name("_scenic_properties", ast.Store())], value=ast.Dict(keys=[], values=[]))]
        self.generic_visit(node)
        return node


_SOFT = set()


def excluded(src, tree):
    """Inputs outside the property's claim."""
    try:
        for t in tokenize.generate_tokens(io.StringIO(src).readline):
            if t.type == tokenize.NAME and (t.string in HARD or t.string in TRACKED or t.string in ("localPath", "Object")):
                return "uses a reserved word as identifier"
    except Exception:
        return "tokenize failed"
    soft = _SOFT or _SOFT.update(scenic_keywords()[1]) or _SOFT
    for n in ast.walk(tree):
        if isinstance(n, ast.Name) and n.id in ("str", "int", "float") and not isinstance(n.ctx, ast.Load):
            return "assigns to str/int/float (documented as not reassignable)"
        if isinstance(n, ast.Expr) and isinstance(n.value, ast.Name) and n.value.id in soft:
            return "a bare soft keyword as a whole statement (documented context-dependent meaning)"
        if isinstance(n, ast.Expr) and isinstance(n.value, ast.Call) and isinstance(n.value.func, ast.Name) and n.value.func.id in soft:
            return "a statement starting with a soft keyword (read as the Scenic statement of that name)"
        if isinstance(n, ast.BinOp) and isinstance(n.op, ast.MatMult):
            return "binary @ (documented Scenic vector operator)"
        if isinstance(n, ast.ClassDef):
            for st in n.body:
                if isinstance(st, ast.AnnAssign) or (isinstance(st, ast.Expr) and False):
                    return "annotated assignment in class body (Scenic property syntax)"
        if isinstance(n, (ast.TypeAlias,)) if hasattr(ast, "TypeAlias") else False:
            return "type alias statement"
    return None


def has_debug_fstring(src):
    """f-string with a self-documenting expression (f'{expr=}')."""
    try:
        toks = list(tokenize.generate_tokens(io.StringIO(src).readline))
    except Exception:
        return False
    depth = 0
    for i, t in enumerate(toks):
        if t.type == getattr(tokenize, "FSTRING_START", -1):
            depth += 1
        elif t.type == getattr(tokenize, "FSTRING_END", -1):
            depth -= 1
        elif depth > 0 and t.type == tokenize.OP and t.string == "=" and i + 1 < len(toks) and toks[i + 1].string in ("}", "!", ":"):
            return True
    return False


_PREFIX_NODES = {}


def compare(src, prefix=""):
    """Returns (verdict, detail): 'same' | 'excluded' | 'invalid-python' | 'DIFFERENT' | 'REJECTED' | 'CRASH'.

    With a `prefix` (Scenic definitions placed BEFORE the Python text) the module is compiled as a whole and the
    nodes generated for the Python part are compared with CPython's parse of that part alone."""
    from scenic.core.errors import ScenicSyntaxError
    from scenic.syntax.compiler import compileScenicAST
    from scenic.syntax.parser import parse_string

    try:
        ref = ast.parse(src)
    except (SyntaxError, ValueError, RecursionError, MemoryError):
        return "invalid-python", None
    why = excluded(src, ref)
    if why:
        return "excluded", why
    try:
        if prefix and prefix not in _PREFIX_NODES:
            pt, _ = compileScenicAST(parse_string(prefix, "exec", filename="<c09>"), filename="<c09>")
            _PREFIX_NODES[prefix] = len(pt.body)
        tree = parse_string(prefix + src, "exec", filename="<c09>")
        got, _ = compileScenicAST(tree, filename="<c09>")
        if prefix:
            got = ast.Module(body=got.body[_PREFIX_NODES[prefix]:], type_ignores=[])
            ast.increment_lineno(ref, prefix.count("\n"))
            for n in ast.walk(ref):  # increment_lineno leaves end_lineno of some nodes alone on older versions
                pass
    except ScenicSyntaxError as e:
        return "REJECTED", f"{type(e).__name__}: {e} (line {getattr(e, 'lineno', '?')})"
    except RecursionError:
        return "excluded", "recursion limit"
    except Exception as e:
        return "CRASH", f"{type(e).__name__}: {str(e)[:150]}"
    ref2 = RefRewriter().visit(ref)
    a, b = ast.dump(got), ast.dump(ref2)
    if a != b:
        i = next((k for k, (x, y) in enumerate(zip(a, b)) if x != y), min(len(a), len(b)))
        if has_debug_fstring(src):
            return "KNOWN:debug-fstring", f"...{a[max(0, i - 60): i + 60]}  VS  ...{b[max(0, i - 60): i + 60]}"
        for amb in ("distance", "angle", "offset", "altitude", "visible"):
            if any(t.type == tokenize.NAME and t.string == amb for t in tokenize.generate_tokens(io.StringIO(src).readline)):
                return "excluded", f"uses the documented ambiguous soft keyword {amb!r} as an identifier"
        return "DIFFERENT", f"...{a[max(0, i - 60): i + 60]}  VS  ...{b[max(0, i - 60): i + 60]}"
    for x, y in zip(ast.walk(got), ast.walk(ref2)):
        lx, ly = getattr(x, "lineno", None), getattr(y, "lineno", None)
        if lx is not None and ly is not None and (lx != ly or getattr(x, "end_lineno", None) != getattr(y, "end_lineno", None)):
            return "DIFFERENT", f"line numbers of {type(x).__name__}: {lx}-{getattr(x, 'end_lineno', None)} vs {ly}-{getattr(y, 'end_lineno', None)}"
    return "same", None


def python_files():
    std = sysconfig.get_paths()["stdlib"]
    files = sorted(glob.glob("/repo/src/scenic/**/*.py", recursive=True) + glob.glob("/repo/tests/**/*.py", recursive=True))
    files = [f for f in files if not f.endswith("parser.py")]
    stdf = sorted(glob.glob(os.path.join(std, "*.py")) + glob.glob(os.path.join(std, "json", "*.py")) + glob.glob(os.path.join(std, "email", "*.py")))
    return [f for f in files + stdf if os.path.getsize(f) < 40000]


def h_files(batch):
    def h(ctx):
        f = ctx.choice("file", batch)
        if ctx.symbolic:
            from crosshair.tracers import NoTracing

            with NoTracing():
                try:
                    src = open(f, encoding="utf-8").read()
                except Exception:
                    src = ""
                verdict, detail = compare(src)
        else:
            src = open(f, encoding="utf-8").read()
            verdict, detail = compare(src)
        ctx.check("compiled-tree-is-what-CPython-parses-modulo-documented-rewrites",
                  verdict in ("same", "excluded", "invalid-python") or verdict.startswith("KNOWN:"), file=f, verdict=verdict, detail=detail)
        ctx.check("debug-fstring-text-preserved", verdict != "KNOWN:debug-fstring", file=f, detail=detail)
        SEEN[src] = verdict

    return h


SEEN = {}  # program text -> verdict of the comparison with CPython (per worker process)


def counters():
    """Measured per obligation: distinct programs pushed through both front ends, and how many of them the
    two front ends disagreed on (tree or validity) so that the disagreement had to be classified (documented
    exclusion / not valid Python for CPython either / listed known finding / violation)."""
    return {"programs": len(SEEN), "disagreements_checked": sum(1 for v in SEEN.values() if v != "same"),
            "programs_with_identical_trees": sum(1 for v in SEEN.values() if v == "same")}

STATEMENTS = [
    "x = a + b * c", "def f(a, b=1, *c, d, **e): return a", "for i in range(10): print(i)", "y = [i for i in z if i]",
    "with open(p) as f: data = f.read()", "lam = lambda a, b: a if b else None", "class K(Base): attr = 1",
    "try:\n    g()\nexcept E as e:\n    raise\nfinally:\n    h()", "while cond and not other: cond = step(cond)",
    "d = {k: v for k, v in items}", "s = f'{name!r:>10} {value:.2f}'", "a, *b = seq", "x = y if z else w",
    "assert isinstance(q, int), msg", "import a.b as c", "from m import (n, o)", "v = obj.attr[idx](arg, kw=1)",
    "def g():\n    yield from gen\n    return (yield)", "async def co():\n    await other()", "z = not a or b and c in d",
    "r = a @ b % c // d ** e", "t = (1, 2.5, 3j, 'x', b'y', None, True, ...)", "del a[0], b.c", "x: int = 3", "global g1",
    "print(*args, sep='')", "val = str(int(float(w)))", "m = matrix[1:2, ::3]", "n = -x + ~y", "if (k := f(x)) > 3: pass",
    "match cmd:\n    case [a, b]:\n        pass\n    case _:\n        pass", "type_ = type(x)", "res = left < mid <= right",
    "q = a.left + b.right - c.front.top", "w = [heading, position, offset, distance, angle, facing, visible]",
    "def behavior(scenario, monitor, param): return scenario.model", "steps = seconds * 10", "e = not visible",
    "pick = a if p else b if q else c", "fn = g if flag else lambda: 0", "class Reg:\n    table = {}\n    table[int] = 1\n    table['k'], other = 2, 3",
    "text = f'line\\n\\t{v}\\x41'", "msg = f'{name!r} has {count:>4} items, {ratio!s:.3}'", "dbg = f'{value=} {other = !r}'",
]


def h_statements(stmts, vocab, nsites, rnd_seed, prefixes=("",)):
    rnd = random.Random(rnd_seed)
    plan = []
    for s in stmts:
        toks = [t for t in tokenize.generate_tokens(io.StringIO(s + "\n").readline) if t.type in (tokenize.NAME, tokenize.OP, tokenize.NUMBER)]
        sites = rnd.sample(range(len(toks)), min(len(toks), nsites)) or [0]
        plan.append((s, toks, sites))

    def h(ctx):
        s, toks, sites = ctx.choice("statement", plan)
        prefix = ctx.choice("scenic-definitions-before", list(prefixes)) if len(prefixes) > 1 else prefixes[0]
        mode = ctx.choice("mutation", ["none", "replace"] if nsites else ["none"])
        if mode == "none":
            src = s + "\n"
        else:
            i = ctx.choice("site", sites)
            v = ctx.choice("replacement", vocab)
            t = toks[i]
            lines = (s + "\n").splitlines(keepends=True)
            ln = t.start[0] - 1
            lines[ln] = lines[ln][: t.start[1]] + v + lines[ln][t.end[1]:]
            src = "".join(lines)
        if ctx.symbolic:
            from crosshair.tracers import NoTracing

            with NoTracing():
                verdict, detail = compare(src, prefix)
        else:
            verdict, detail = compare(src, prefix)
        ctx.check("compiled-tree-is-what-CPython-parses-modulo-documented-rewrites",
                  verdict in ("same", "excluded", "invalid-python") or verdict.startswith("KNOWN:"), source=src, verdict=verdict, detail=detail,
                  after=prefix[:40])
        ctx.check("debug-fstring-text-preserved", verdict != "KNOWN:debug-fstring", source=src, detail=detail)
        SEEN[prefix + src] = verdict

    return h


# ------------------------------------------------------------------ (a) rewrite layer with symbolic positions
def h_rewrite_positions(ctx):
    from scenic.syntax.compiler import ScenicToPythonTransformer

    tr = ScenicToPythonTransformer("<c09>")
    L, C, EL, EC = ctx.int("lineno", 1, None), ctx.int("col_offset", 0, None), ctx.int("end_lineno", 1, None), ctx.int("end_col_offset", 0, None)
    pos = dict(lineno=L, col_offset=C, end_lineno=EL, end_col_offset=EC)

    def same_pos(n):
        return E.sym_and(n.lineno == L, n.col_offset == C, n.end_lineno == EL, n.end_col_offset == EC)

    name = ctx.choice("identifier", ["ego", "workspace", "globalParameters", "str", "int", "float", "foo", "left", "position"])
    kind = ctx.choice("template", ["name", "call", "call-star", "class"])
    if kind == "name":
        out = tr.visit(ast.Name(id=name, ctx=ast.Load(), **pos))
        if name in TRACKED:
            ctx.check("tracked-name-becomes-an-accessor-call", isinstance(out, ast.Call) and isinstance(out.func, ast.Name) and out.func.id == name and not out.args)
        else:
            ctx.check("ordinary-name-unchanged", isinstance(out, ast.Name) and out.id == name)
        ctx.check("rewritten-node-keeps-the-position", same_pos(out))
    elif kind in ("call", "call-star"):
        arg = ast.Name(id="a", ctx=ast.Load(), lineno=L, col_offset=C + 2, end_lineno=L, end_col_offset=C + 3)
        args = [ast.Starred(value=arg, ctx=ast.Load(), lineno=L, col_offset=C + 1, end_lineno=L, end_col_offset=C + 3)] if kind == "call-star" else [arg]
        out = tr.visit(ast.Call(func=ast.Name(id=name, ctx=ast.Load(), **pos), args=args, keywords=[], **pos))
        ctx.check("call-stays-a-call-at-the-same-position", isinstance(out, ast.Call) and same_pos(out))
        lifted = {"str": "_toStrScenic", "int": "_toIntScenic", "float": "_toFloatScenic"}
        if kind == "call-star":
            ctx.check("star-arguments-wrapped", out.func.id == "callWithStarArgs" and isinstance(out.args[1], ast.Starred)
                      and out.args[1].value.func.id == "wrapStarredValue")
            ctx.check("wrapper-records-the-argument's-line", out.args[1].value.args[1].value == L)
        elif name in lifted:
            ctx.check("primitive-conversion-lifted", out.func.id == lifted[name])
        elif name not in TRACKED:
            ctx.check("ordinary-call-unchanged", out.func.id == name and len(out.args) == 1)
    else:
        has_base = ctx.flag("has_base")
        cd = ast.ClassDef(name="K", bases=[ast.Name(id="Base", ctx=ast.Load(), **pos)] if has_base else [], keywords=[],
                          body=[ast.Pass(**pos)], decorator_list=[], **pos)
        if hasattr(ast, "TypeVar"):
            cd.type_params = []
        out = tr.visit(cd)
        ctx.check("class-keeps-position-and-name", isinstance(out, ast.ClassDef) and out.name == "K" and same_pos(out))
        ctx.check("base-less-class-derives-from-Object", [b.id for b in out.bases] == (["Base"] if has_base else ["Object"]))
        ctx.check("property-table-added-once", sum(1 for st in out.body if isinstance(st, ast.Assign) and st.targets[0].id == "_scenic_properties") == 1
                  and any(isinstance(st, ast.Pass) for st in out.body))


def obligations(tier, seed):
    from scenic.syntax import compiler, parser

    rnd = random.Random(9900 + seed)
    hard, soft = scenic_keywords()
    files = python_files()
    nfiles = 48 if tier == "quick" else 480
    chosen = rnd.sample(files, min(nfiles, len(files)))
    per = 8
    enc = [parser.parse_string, compiler.compileScenicAST, compiler.ScenicToPythonTransformer.visit_Name,
           compiler.ScenicToPythonTransformer.visit_Call, compiler.ScenicToPythonTransformer.visit_ClassDef]
    obs = [Obligation("rewrite-layer-positions", h_rewrite_positions, "visit_Name/visit_Call/visit_ClassDef keep positions, apply exactly the documented rewrites",
                      {"positions": "symbolic integers", "identifiers": 9, "templates": 4}, enc[2:], [])]
    for bi in range(0, len(chosen), per):
        batch = chosen[bi: bi + per]
        obs.append(Obligation(f"python-files[{bi // per}]", h_files(batch), "whole Python files: " + ", ".join(os.path.basename(f) for f in batch[:4]) + " ...",
                              {"files": len(batch)}, enc[:2], ["ast.parse (CPython) as oracle"], twin=False, opts=dict(total_timeout=600.0)))
    # Python text after Scenic definitions binding the same names locally
    prefixes = ["", "behavior B(a, b=2):\n    x = 1\n    y = [i for i in range(3)]\n    z = w = q = 0\n    take x\n",
                "monitor M():\n    count = 0\n    x = y = 1\n    wait\n",
                "scenario S():\n    setup:\n        foo = 1\n        x = 2\n    compose:\n        y = 3\n        wait\n",
                "class Thing(Object):\n    bar: 1\n    x: 2\n"]
    after = ["x = a + b * y", "def f(a, b=1):\n    return x + count + i", "foo = [z for z in w if q]", "print(x, count, foo, bar, y)",
             "class K(Base):\n    x = 1\n    def m(self, y):\n        return self.x + y + z", "x += 1; y = x; del z", "lam = lambda x, y=b: x + y + count",
             "for x in y:\n    w = x", "with q as x:\n    a = x", "import x as y, a.b as b", "def g():\n    global x, count\n    x = count"]
    obs.append(Obligation("python-after-scenic-definitions", h_statements(after, ["x"], 0, 1, prefixes),
                          "plain Python following behaviors / monitors / scenarios / Scenic classes that bind the same names locally",
                          {"statements": len(after), "prefixes": len(prefixes)}, enc[:2] + [compiler.ScenicToPythonTransformer.makeBehaviorLikeDef],
                          ["ast.parse (CPython) as oracle"], twin=False))
    classbody = ["class Reg:\n    counts = {}\n    counts['a'] += 2\n    counts.x -= 1\n    counts['k'] = counts['j'] = 0",
                 "class Reg:\n    (p, q) = (1, 2)\n    [r, s] = [1, 2]\n    *u, v = [1, 2, 3]\n    del u", "class Reg:\n    t = {}\n    t['z'] |= {}\n    t[0][1] **= 2\n    t[1:2] = []",
                 "class Reg:\n    n = 0\n    n += 1\n    n //= 2\n    m = n = 4", "class Reg:\n    if flag:\n        a[0] += 1\n    else:\n        a.b @= c",
                 "class Reg:\n    for i in r:\n        acc[i] += i\n    while c:\n        acc[0] -= 1", "class Reg:\n    with cm as v:\n        tbl[v] += 1\n    x, y = tbl['a'], tbl['b']"]
    obs.append(Obligation("class-body-statements", h_statements(classbody, ["x"], 0, 1), "assignments (plain, augmented, tuple, starred) and compound statements directly in class bodies",
                          {"statements": len(classbody)}, enc[:2], ["ast.parse (CPython) as oracle"], twin=False))
    pre = ["f", "F", "rf", "fr", "Rf", "fR", "RF", "FR", "rF", "Fr"]
    fpre = [f"s = {q}'C:\\new\\table{{a}}\\x41 \\N{{DASH}}'" if False else f"s = {q}'C:\\new\\table{{a}}\\x41'" for q in pre]
    fpre += [f's = {q}"""line\\n{{a!r}}\\t"""' for q in pre] + ["b = rb'\\n' + Rb'\\t' + bR'\\x'", "u = R'\\n' 'a\\n' r'\\d'"]
    obs.append(Obligation("fstring-prefixes", h_statements(fpre, ["x"], 0, 1), "every capitalisation / order of the f and r prefixes, with escapes in the literal parts",
                          {"statements": len(fpre)}, enc[:2], ["ast.parse (CPython) as oracle"], twin=False))
    fstr = ["m = f'{name!r} has {count:>4} items, {ratio!s:.3}'", "d = f'{value=}'", "e = f'{a + b = !r:>8}'", "n = f'{x:{width}.{prec}}'",
            "t = f\"\"\"{a}\n{b!a}\"\"\"", "j = f'{{literal}} {v}' 'tail' f'{w}'"]
    obs.append(Obligation("fstring-forms", h_statements(fstr, ["x"], 0, 1), "f-string forms (conversions, format specs, nested fields, debug expressions)",
                          {"statements": len(fstr)}, enc[:2], ["ast.parse (CPython) as oracle"], twin=False))
    vocab_soft = sorted(soft - {"_", "not", "type", "match", "case", "from", "of"})
    rnd.shuffle(vocab_soft)
    chunk = 12 if tier == "quick" else 40
    nst = 10 if tier == "quick" else len(STATEMENTS)
    stmts = rnd.sample(STATEMENTS, nst)
    for ci in range(0, len(vocab_soft), chunk):
        vocab = vocab_soft[ci: ci + chunk] + ["(", ")", ",", ":", "=", "x"]
        obs.append(Obligation(f"python-statements[vocab {ci // chunk}]", h_statements(stmts, vocab, 3 if tier == "quick" else 8, 77 + seed + ci),
                              "statements with one token replaced by a Scenic soft keyword / punctuation: " + " ".join(vocab[:6]) + " ...",
                              {"statements": len(stmts), "vocabulary": len(vocab)}, enc[:2], ["ast.parse (CPython) as oracle"], twin=False,
                              opts=dict(total_timeout=900.0)))
    return obs
