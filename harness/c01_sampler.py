"""C01 - scenes are drawn from exactly the program's conditional distribution (finite-discrete fragment)."""
import itertools
import random

from symx import engine as E
from symx.runner import Obligation

PROPERTY = "C01"
PRELOAD = ["scenic", "scenic.core.scenarios", "scenic.syntax.translator"]
LEVEL = "other"
EXPLANATION = (
    "Programs of the finite-discrete fragment (written in a small IR that is rendered to Scenic text and "
    "compiled by the real front end) are sampled with Scenario._generateInner under CrossHair while every "
    "value returned by random.randint / random.choices / random.random is symbolic and logged with the "
    "parameters of the call.  An independent denotational evaluator of the IR consumes the same draws. "
    "On every path z3 decides: each RNG call has exactly the kind and parameter terms the matching prior "
    "variable prescribes (one draw per variable per attempt, resample afresh with equal parameters); every "
    "returned parameter / object property equals the evaluator's value; an attempt is accepted iff all "
    "hard and all active soft requirements hold under the bindings at the time of the statement; soft "
    "requirements are activated once per scene by their own uniform draw on a set of measure p; with K "
    "attempts unrolled the iteration count is the index of the first accepted attempt and "
    "RejectionException is raised iff none is accepted.  Equality of the conditional distributions follows "
    "(product measure of the draws + equal output/acceptance functions); that last step is an argument, "
    "not a solver query."
)
MANIFEST_ENTRY = {
    "category": "other",
    "text": "Bounded symbolic checking of the real sampler on a corpus of IR programs (fixed, plus seeded generated ones): for all values of all RNG calls within K<=2-3 unrolled attempts, z3 decides draw-for-draw agreement with the prior (kinds, ranges, weights), equality of every output with an independent evaluator, exact acceptance, activation measure of soft requirements and the attempt count.",
    "note": "Trusted: CrossHair, z3, the IR evaluator, the models of random.randint/choices/random (documented distributions). Bounds: <=8 statements, <=5 random leaves, ranges <=6 wide, <=4 options, K<=3 attempts. Outside: continuous distributions, external samplers, mutation, empty ranges (rejection inside sampling).",
}
ASSUMPTIONS = [
    "fresh requirement-checker statistics and a deterministic clock on every path (checker histories are C02/C15)",
    "random.randint(a,b) uniform on a..b; random.choices(pop, cum_weights) picks index i with probability proportional to the i-th weight; random.random() uniform on [0,1)",
    "matching of RNG calls to prior variables is a fixed per-program permutation within each kind (alternatives are tried as separate explorations, never per path)",
]

# ------------------------------------------------------------------ IR -> Scenic text
BINOPS = {"+", "-", "*"}
CMPS = {"<", "<=", "==", "!=", ">", ">="}


def etext(e):
    k = e[0]
    if k == "c":
        return repr(e[1])
    if k == "v":
        return e[1]
    if k == "uni":
        return "Uniform(" + ", ".join(etext(x) for x in e[1:]) + ")"
    if k == "disc":
        return "Discrete({" + ", ".join(f"{etext(x)}: {w}" for x, w in e[1]) + "})"
    if k == "rng":
        return f"DiscreteRange({etext(e[1])}, {etext(e[2])})"
    if k == "re":
        return f"resample({e[1]})"
    if k in BINOPS or k in CMPS:
        return f"({etext(e[1])} {k} {etext(e[2])})"
    if k == "neg":
        return f"(-{etext(e[1])})"
    if k == "half":
        return f"({etext(e[1])} / 2)"
    if k in ("and", "or"):
        return f"({etext(e[1])} {k} {etext(e[2])})"
    if k == "not":
        return f"(not {etext(e[1])})"
    if k == "tup":
        return "(" + ", ".join(etext(x) for x in e[1:]) + ",)"
    if k == "idx":
        return f"{etext(e[1])}[{e[2]}]"
    if k == "vx":
        return f"({etext(e[1])} @ {etext(e[2])}).x"
    if k == "call":  # lifted user function double_plus(a, b) = 2*a + b
        return f"lin2({etext(e[1])}, {etext(e[2])})"
    if k == "starcall":
        return f"lin2(*{etext(e[1])})"
    if k == "egox":
        return "ego.position.x"
    if k == "div1":
        return f"({etext(e[1])} / 1)"
    if k == "attr":  # attribute of a random object choice
        return f"{etext(e[1])}.{e[2]}"
    raise ValueError(k)


def ptext(prog):
    lines = ["from scenic.core.distributions import distributionFunction",
             "@distributionFunction", "def lin2(a, b):", "    return 2 * a + b", ""]
    first = True
    nobj = 0
    for st in prog:
        k = st[0]
        if k == "let":
            lines.append(f"{st[1]} = {etext(st[2])}")
        elif k == "param":
            lines.append(f"param {st[1]} = {etext(st[2])}")
        elif k == "require":
            lines.append(f"require[{st[2]}] {etext(st[1])}" if st[2] is not None else f"require {etext(st[1])}")
        elif k == "ego":
            lines.append(f"ego = {st[1]}")
        elif k == "obj":
            extra = "".join(f", with {p} {etext(v)}" for p, v in st[4].items())
            tgt = "ego" if first else st[1]
            first = False
            lines.append(f"{tgt} = new Object at ({etext(st[2])}, {etext(st[3])}), with allowCollisions True, "
                         f"with requireVisible False, with vtag {nobj}{extra}")
            nobj += 1
            if tgt != st[1]:
                lines.append(f"{st[1]} = ego")
    if first:
        lines.append("ego = new Object at (100, 100), with allowCollisions True")
    return "\n".join(lines) + "\n"


# ------------------------------------------------------------------ RNG models (both modes)
class DrawLog:
    def __init__(self, ctx):
        self.ctx = ctx
        self.calls = []  # (kind, params, value)

    def randint(self, a, b):
        r = self.ctx.int("randint")
        self.ctx.assume(E.sym_and(a <= r, r <= b))
        self.calls.append(("randint", (a, b), r))
        return r

    def choices(self, population, weights=None, *, cum_weights=None, k=1):
        assert k == 1
        population = list(population)
        if cum_weights is not None:
            cw = list(cum_weights)
            w = [cw[0]] + [cw[i] - cw[i - 1] for i in range(1, len(cw))]
        elif weights is not None:
            w = list(weights)
        else:
            w = [1] * len(population)
        i = self.ctx.int("choice", 0, len(population) - 1)
        # index realised by forking: population[i] needs a concrete index
        j = 0
        while j < len(population) - 1 and not (i == j):
            j += 1
        self.calls.append(("choices", (tuple(population), tuple(w)), j))
        return [population[j]]

    def random(self):
        u = self.ctx.real("u", 0, None)
        self.ctx.assume(u < 1)
        self.calls.append(("random", (), u))
        return u


class Patched:
    def __init__(self, log):
        self.log = log

    def __enter__(self):
        import time

        self.saved = (random.randint, random.choices, random.random, time.perf_counter)
        random.randint, random.choices, random.random = self.log.randint, self.log.choices, self.log.random
        tick = [0.0]

        def perf_counter():  # deterministic clock: the checker's ordering statistics are C02/C15's subject
            tick[0] += 1.0
            return tick[0]

        time.perf_counter = perf_counter

    def __exit__(self, *a):
        import time

        random.randint, random.choices, random.random, time.perf_counter = self.saved
        return False


# ------------------------------------------------------------------ oracle: denotational evaluator
class Mismatch(Exception):
    pass


class Oracle:
    """Evaluates the IR on the logged draws.  `perm` maps, per kind, the j-th prior variable (in
    dependency order) to the perm[j]-th logged call of that kind within the attempt."""

    def __init__(self, prog, perms):
        self.prog = prog
        self.perms = perms

    def count_vars(self):
        n = {"randint": 0, "choices": 0}

        def walk(e):
            if not isinstance(e, tuple):
                return
            k = e[0]
            if k == "disc":
                for x, _w in e[1]:
                    walk(x)
                n["choices"] += 1
                return
            for x in e[1:]:
                walk(x)
            if k in ("uni", "rng"):
                n["randint"] += 1
            if k == "re":
                n[self.kind_of_name[e[1]]] += 1

        self.kind_of_name = {}
        for st in self.prog:
            if st[0] == "let" and st[2][0] in ("uni", "rng", "disc"):
                self.kind_of_name[st[1]] = "choices" if st[2][0] == "disc" else "randint"
            if st[0] in ("let", "param"):
                walk(st[2])
            elif st[0] == "require":
                walk(st[1])
            elif st[0] == "obj":
                walk(st[2]); walk(st[3])
                for v in st[4].values():
                    walk(v)
        return n

    def run_attempt(self, calls, obligations):
        """calls: logged calls of one attempt.  Returns (outputs, accept_conditions)."""
        by_kind = {"randint": [c for c in calls if c[0] == "randint"], "choices": [c for c in calls if c[0] == "choices"]}
        counters = {"randint": 0, "choices": 0}
        defs = {}

        def draw(kind, params_check):
            j = counters[kind]
            counters[kind] += 1
            perm = self.perms.get(kind)
            idx = perm[j] if perm is not None and j < len(perm) else j
            if idx >= len(by_kind[kind]):
                raise Mismatch(f"prior variable #{j} of kind {kind} has no RNG call")
            call = by_kind[kind][idx]
            params_check(call)
            return call[2]

        def ev(e, env):
            k = e[0]
            if k == "c":
                return e[1]
            if k == "v":
                return env[e[1]]
            if k == "uni":
                opts = [ev(x, env) for x in e[1:]]
                return pick(opts, None, e)
            if k == "disc":
                opts = [ev(x, env) for x, _w in e[1]]
                return pick(opts, [w for _x, w in e[1]], e)
            if k == "rng":
                lo, hi = ev(e[1], env), ev(e[2], env)
                return drange(lo, hi)
            if k == "re":
                kind, payload = defs[e[1]]
                if kind == "rng":
                    return drange(*payload)
                return pick(payload[0], payload[1], None)
            if k in BINOPS:
                a, b = ev(e[1], env), ev(e[2], env)
                return a + b if k == "+" else a - b if k == "-" else a * b
            if k == "neg":
                return -ev(e[1], env)
            if k == "half":
                return ev(e[1], env) / 2
            if k == "div1":
                return ev(e[1], env)
            if k == "egox":
                return outputs[("obj", env["__ego__"], "x")]
            if k in CMPS:
                a, b = ev(e[1], env), ev(e[2], env)
                return {"<": a < b, "<=": a <= b, "==": a == b, "!=": a != b, ">": a > b, ">=": a >= b}[k]
            if k == "and":
                return E.sym_and(ev(e[1], env), ev(e[2], env))
            if k == "or":
                return E.sym_or(ev(e[1], env), ev(e[2], env))
            if k == "not":
                return E.sym_not(ev(e[1], env))
            if k == "tup":
                return tuple(ev(x, env) for x in e[1:])
            if k == "idx":
                return ev(e[1], env)[e[2]]
            if k == "vx":
                a = ev(e[1], env)
                ev(e[2], env)
                return a
            if k == "call":
                return 2 * ev(e[1], env) + ev(e[2], env)
            if k == "starcall":
                t = ev(e[1], env)
                return 2 * t[0] + t[1]
            raise ValueError(k)

        def drange(lo, hi):
            import math

            lo_i, hi_i = math.ceil(lo), math.floor(hi)  # integers v with lo <= v <= hi

            def chk(call):
                a, b = call[1]
                obligations.append(("draw-range-matches-prior", E.sym_and(a == lo_i, b == hi_i), dict(want=(lo_i, hi_i), got=(a, b))))

            v = draw("randint", chk)
            last[0] = ("rng", (lo, hi))
            return v

        def pick(opts, weights, node):
            n = len(opts)
            if weights is None:
                def chk(call):
                    a, b = call[1]
                    obligations.append(("draw-range-matches-prior", E.sym_and(a == 0, b == n - 1), dict(want=(0, n - 1), got=(a, b))))

                i = draw("randint", chk)
            else:
                def chk(call):
                    pop, w = call[1]
                    ok = list(pop) == list(range(n)) and len(w) == n and all(
                        w[t] * weights[0] == weights[t] * w[0] for t in range(n))
                    obligations.append(("choice-weights-match-prior", ok, dict(want=weights, got=(pop, w))))

                i = draw("choices", chk)
            last[0] = ("opt", (opts, weights))
            # value = opts[i] as a nested if-then-else (no forking)
            val = opts[-1]
            for t in range(n - 2, -1, -1):
                val = ite(i == t, opts[t], val)
            return val

        def ite(c, a, b):
            if isinstance(a, tuple):
                return tuple(ite(c, x, y) for x, y in zip(a, b))
            if not E.is_symbolic(c):
                return a if c else b
            return E.sym_ite(c, a, b)

        last = [None]
        env = {}
        outputs = {}
        accept = []  # (condition, prob or None, index of soft requirement)
        objs = []
        soft = 0
        for st in self.prog:
            k = st[0]
            if k == "let":
                last[0] = None
                env[st[1]] = ev(st[2], env)
                if st[2][0] in ("uni", "rng", "disc") and last[0] is not None:
                    defs[st[1]] = last[0]
            elif k == "param":
                outputs[("param", st[1])] = ev(st[2], env)
            elif k == "require":
                cond = ev(st[1], env)
                if st[2] is None:
                    accept.append((cond, None, None))
                else:
                    accept.append((cond, st[2], soft))
                    soft += 1
            elif k == "obj":
                x, y = ev(st[2], env), ev(st[3], env)
                outputs[("obj", len(objs), "x")] = x
                outputs[("obj", len(objs), "y")] = y
                for p, v in st[4].items():
                    outputs[("obj", len(objs), p)] = ev(v, env)
                objs.append(st[1])
                env[st[1]] = ("object", len(objs) - 1)
                if len(objs) == 1:
                    env["__ego__"] = 0
            elif k == "ego":
                env["__ego__"] = env[st[1]][1]
        for kind in counters:
            if counters[kind] != len(by_kind[kind]):
                obligations.append(("one-draw-per-prior-variable", False,
                                    dict(kind=kind, prior_variables=counters[kind], rng_calls=len(by_kind[kind]))))
        return outputs, accept


FORMS = {
    "u<=p": lambda u, p: u <= p,
    "u<p": lambda u, p: u < p,
    "u>1-p": lambda u, p: u > 1 - p,
    "u>=1-p": lambda u, p: u >= 1 - p,
}


def n_soft(prog):
    return sum(1 for st in prog if st[0] == "require" and st[2] is not None)


_COMPILED = {}


def compiled(prog_key, prog, mode2D):
    if prog_key not in _COMPILED:
        import scenic

        _COMPILED[prog_key] = scenic.scenarioFromString(ptext(prog), mode2D=mode2D)
    return _COMPILED[prog_key]


def harness_for(name, prog, K, mode2D, perms, form):
    def h(ctx):
        from scenic.core.distributions import RejectionException

        from scenic.core.sample_checking import WeightedAcceptanceChecker

        scenario = compiled((name, mode2D), prog, mode2D)
        scenario.setSampleChecker(WeightedAcceptanceChecker(bufferSize=100))  # fresh statistics on every path
        log = DrawLog(ctx)
        with Patched(log):
            try:
                scene, iterations = scenario._generateInner(K, 0, None)
                outcome = "scene"
            except RejectionException:
                scene, iterations, outcome = None, None, "rejected"
        calls = log.calls
        probs = [(1 if st[2] is None else st[2]) for st in prog if st[0] == "require"]
        ns = n_soft(prog)
        # activation draws come first, once per scene: one per user requirement (those with p = 1 may be skipped)
        lead = 0
        while lead < len(calls) and calls[lead][0] == "random":
            lead += 1
        ctx.check("one-activation-draw-per-soft-requirement", lead in (len(probs), ns) and
                  not any(c[0] == "random" for c in calls[lead:]), calls=[c[0] for c in calls])
        if lead not in (len(probs), ns):
            return
        act = calls[:lead]
        rest = calls[lead:]
        orc = Oracle(prog, perms)
        per = orc.count_vars()
        per_attempt = per["randint"] + per["choices"]
        attempts = iterations if outcome == "scene" else K
        ctx.check("draws-per-attempt", len(rest) == per_attempt * attempts,
                  rng_calls=len(rest), prior_variables=per_attempt, attempts=attempts)
        if len(rest) != per_attempt * attempts:
            return
        active = []  # per requirement, in program order: symbolic activation condition
        ai = 0
        for p in probs:
            if p == 1 and lead == ns:
                active.append(True)
            else:
                active.append(FORMS[form](act[ai][2], p))
                ai += 1
        # the implementation's activation flags must be this set (measure exactly p; p = 1: always)
        impl_active = [r.active for r in scenario.userRequirements]
        ctx.check("requirement-count", len(impl_active) == len(probs))
        for si, p in enumerate(probs):
            a = active[si]
            ctx.check("soft-requirement-activation-has-measure-p",
                      a if impl_active[si] else E.sym_not(a), requirement=si, p=p,
                      implementation_active=bool(impl_active[si]), form=form)
        for a in range(attempts):
            chunk = rest[a * per_attempt:(a + 1) * per_attempt]
            obl = []
            try:
                outputs, accept = orc.run_attempt(chunk, obl)
            except Mismatch as m:
                ctx.check("draws-match-prior-variables", False, detail=str(m), attempt=a)
                return
            for label, cond, info in obl:
                ctx.check(label, cond, attempt=a, **info)
            conds = []
            for ri, (cond, p, si) in enumerate(accept):
                conds.append(E.sym_or(E.sym_not(active[ri]), cond))
            ok = E.sym_and(*conds) if conds else True
            last = a == attempts - 1
            if outcome == "scene" and last:
                ctx.check("accepted-attempt-satisfies-all-active-requirements", ok, attempt=a)
                for key, want in outputs.items():
                    if key[0] == "param":
                        got = scene.params[key[1]]
                    else:
                        o = [ob for ob in scene.objects if ob.vtag == key[1]][0]
                        got = o.position.x if key[2] == "x" else o.position.y if key[2] == "y" else getattr(o, key[2])
                    if isinstance(want, tuple):
                        ctx.check("output-equals-reference", len(got) == len(want) and
                                  E.sym_and(*[g == w for g, w in zip(got, want)]), output=str(key))
                    else:
                        ctx.check("output-equals-reference", got == want, output=str(key))
            else:
                ctx.check("rejected-attempt-violates-an-active-requirement", E.sym_not(ok), attempt=a,
                          outcome=outcome)
        if outcome == "scene":
            ctx.check("iteration-count-is-first-accepted-attempt", iterations == attempts and 1 <= iterations <= K)

    return h


# ------------------------------------------------------------------ corpus
def C(v):
    return ("c", v)


def V(n):
    return ("v", n)


def corpus():
    P = {}
    P["uniform-param"] = [("let", "x", ("uni", C(1), C(2), C(3))), ("param", "p", V("x")), ("param", "q", ("+", V("x"), C(10)))]
    P["weighted"] = [("let", "x", ("disc", [(C(1), 1), (C(5), 3), (C(9), 2)])), ("param", "p", V("x"))]
    P["range-random-bound"] = [("let", "h", ("uni", C(2), C(4))), ("let", "x", ("rng", C(0), V("h"))),
                               ("param", "p", V("x")), ("param", "h", V("h"))]
    P["fractional-bounds"] = [("let", "h", ("uni", C(1), C(2), C(3))), ("let", "x", ("rng", ("half", V("h")), ("half", C(7)))),
                              ("param", "p", V("x")), ("param", "h", V("h"))]
    P["dependent"] = [("let", "a", ("rng", C(1), C(3))), ("let", "b", ("rng", V("a"), ("+", V("a"), C(2)))),
                      ("param", "p", ("-", V("b"), V("a")))]
    P["shared-once"] = [("let", "x", ("rng", C(0), C(4))), ("param", "p", V("x")), ("param", "q", V("x")),
                        ("param", "d", ("-", V("x"), V("x")))]
    P["resample"] = [("let", "x", ("rng", C(0), C(3))), ("let", "y", ("re", "x")), ("param", "p", V("x")), ("param", "q", V("y"))]
    P["resample-dependent"] = [("let", "h", ("uni", C(2), C(3))), ("let", "x", ("rng", C(0), V("h"))), ("let", "y", ("re", "x")),
                               ("param", "p", V("x")), ("param", "q", V("y")), ("param", "h", V("h"))]
    P["hard-require"] = [("let", "x", ("rng", C(0), C(5))), ("require", ("<", V("x"), C(3)), None), ("param", "p", V("x"))]
    P["two-requires"] = [("let", "x", ("rng", C(0), C(4))), ("let", "y", ("uni", C(1), C(3))),
                         ("require", ("<=", V("x"), V("y")), None), ("require", ("!=", V("x"), C(1)), None),
                         ("param", "p", V("x")), ("param", "q", V("y"))]
    P["soft-require"] = [("let", "x", ("rng", C(0), C(3))), ("require", (">", V("x"), C(1)), 0.25), ("param", "p", V("x"))]
    P["soft-and-hard"] = [("let", "x", ("rng", C(0), C(3))), ("let", "y", ("uni", C(0), C(2))),
                          ("require", ("<", V("x"), C(3)), None), ("require", ("==", V("y"), C(2)), 0.5),
                          ("require", ("!=", V("x"), V("y")), 0.75), ("param", "p", V("x")), ("param", "q", V("y"))]
    P["rebound-after-require"] = [("let", "x", ("rng", C(0), C(3))), ("require", (">=", V("x"), C(2)), None),
                                  ("param", "first", V("x")), ("let", "x", ("uni", C(7), C(8))), ("param", "second", V("x"))]
    P["operators"] = [("let", "x", ("rng", C(1), C(3))), ("let", "y", ("uni", C(2), C(5))),
                      ("param", "s", ("+", V("x"), V("y"))), ("param", "m", ("*", V("x"), C(3))),
                      ("param", "n", ("neg", ("-", V("y"), V("x"))))]
    P["identity-shortcuts"] = [("let", "x", ("rng", C(1), C(3))),
                               ("param", "a", ("-", C(0), V("x"))), ("param", "b", ("+", C(0), V("x"))),
                               ("param", "c", ("-", V("x"), C(0))), ("param", "d", ("*", C(1), V("x"))),
                               ("param", "e", ("*", V("x"), C(1))), ("param", "f", ("+", V("x"), C(0))),
                               ("param", "g", ("*", C(0), V("x"))), ("param", "h", ("div1", V("x")))]
    P["ego-rebound-after-require"] = [("let", "x", ("rng", C(0), C(2))), ("let", "y", ("uni", C(0), C(1), C(2))),
                                      ("obj", "a", V("x"), C(0), {}), ("obj", "b", V("y"), C(50), {}),
                                      ("ego", "a"), ("require", ("==", ("egox",), C(1)), None), ("ego", "b")]
    P["lifted-call"] = [("let", "x", ("rng", C(0), C(2))), ("let", "y", ("uni", C(1), C(4))),
                        ("param", "f", ("call", V("x"), V("y"))), ("param", "g", ("call", C(3), V("x")))]
    P["tuple-index-star"] = [("let", "x", ("rng", C(0), C(2))), ("let", "y", ("uni", C(5), C(6))),
                             ("let", "t", ("tup", V("x"), V("y"))), ("param", "a", ("idx", V("t"), 1)),
                             ("param", "s", ("starcall", V("t")))]
    P["vector-attribute"] = [("let", "x", ("rng", C(0), C(3))), ("let", "y", ("uni", C(1), C(2))),
                             ("param", "vx", ("vx", V("x"), V("y"))), ("param", "yy", V("y"))]
    P["nested-choice"] = [("let", "x", ("uni", ("rng", C(0), C(1)), ("uni", C(5), C(6)), C(9))), ("param", "p", V("x"))]
    P["choice-of-shared"] = [("let", "a", ("rng", C(0), C(2))), ("let", "x", ("uni", V("a"), ("+", V("a"), C(10)))),
                             ("param", "p", V("x")), ("param", "a", V("a"))]
    P["objects"] = [("let", "x", ("rng", C(0), C(3))), ("obj", "o1", V("x"), C(0), {}),
                    ("obj", "o2", ("+", V("x"), C(20)), ("uni", C(30), C(40)), {"foo": ("*", V("x"), C(2))}),
                    ("require", ("<", V("x"), C(3)), None), ("param", "p", V("x"))]
    P["require-on-object"] = [("let", "x", ("rng", C(0), C(3))), ("let", "y", ("uni", C(0), C(1))),
                              ("obj", "o1", V("x"), V("y"), {"bar": V("y")}), ("require", ("!=", V("x"), C(2)), None),
                              ("require", ("==", V("y"), C(1)), 0.5)]
    P["weighted-requirement"] = [("let", "x", ("disc", [(C(0), 1), (C(1), 1), (C(2), 2)])),
                                 ("let", "y", ("disc", [(C(3), 3), (C(4), 1)])),
                                 ("require", ("<", ("+", V("x"), V("y")), C(6)), None), ("param", "p", V("x")), ("param", "q", V("y"))]
    return P


def warm(name, prog, mode2D, K):
    def s():
        sc = compiled((name, mode2D), prog, mode2D)
        for _ in range(3):
            try:
                sc._generateInner(50, 0, None)
            except Exception:
                pass

    return s


def perm_candidates(prog):
    orc = Oracle(prog, {})
    n = orc.count_vars()
    cands = [{}]
    ri, ci = list(range(n["randint"])), list(range(n["choices"]))
    for pr in itertools.permutations(ri):
        for pc in itertools.permutations(ci):
            c = {"randint": list(pr), "choices": list(pc)}
            if list(pr) == ri and list(pc) == ci:
                continue
            cands.append(c)
            if len(cands) >= 24:
                return cands
    return cands


def obligations(tier, seed):
    import scenic.core.distributions as D
    import scenic.core.requirements as R
    import scenic.core.sample_checking as SC
    import scenic.core.scenarios as S

    enc = [S.Scenario._generateInner, S.Scenario._makeSceneFromSample, D.Samplable.sampleAll, D.Samplable.sample,
           D.DiscreteRange.sampleGiven, D.MultiplexerDistribution.sampleGiven, D.OperatorDistribution.sampleGiven,
           D.FunctionDistribution.sampleGiven, D.TupleDistribution.sampleGiven, D.AttributeDistribution.sampleGiven,
           R.PendingRequirement.compile, R.CompiledRequirement.falsifiedByInner,
           SC.WeightedAcceptanceChecker.checkRequirementsInner]
    obs = []
    K = 2 if tier == "quick" else 3
    import os

    programs = dict(corpus())
    programs.update(generated(seed, int(os.environ.get("C01_GENERATED", "4" if tier == "quick" else "40"))))
    for name, prog in programs.items():
        modes = [True] if tier == "quick" and not name.startswith("objects") else [True, False]
        for mode2D in modes:
            has_req = any(st[0] == "require" for st in prog)
            k = K if has_req else 1
            alts = []
            forms = list(FORMS) if n_soft(prog) else ["u<=p"]
            for perms in perm_candidates(prog):
                for form in forms:
                    alts.append(harness_for(name, prog, k, mode2D, perms, form))
            ob = Obligation(
                f"{name}[{'2D' if mode2D else '3D'}]", alts[0], ptext(prog).split("return 2 * a + b\n")[1].strip().replace("\n", " ; "),
                {"attempts_unrolled": k, "statements": len(prog)}, enc,
                ["random.randint/choices/random replaced by logging models returning symbolic values"],
                opts=dict(total_timeout=200.0, per_path_timeout=30.0), setup=warm(name, prog, mode2D, k))
            ob.alternatives = alts[1:]
            obs.append(ob)
    return obs


# ------------------------------------------------------------------ generated IR programs
def gen_program(rnd):
    """A random program of the IR: 2-4 random variables (uniform / weighted / discrete range, possibly depending on earlier
    ones, possibly resampled), parameters over expressions, 0-2 requirements (hard or soft)."""
    prog, names, primitive = [], [], []

    def const(lo=0, hi=5):
        return C(rnd.randint(lo, hi))

    def operand():
        return V(rnd.choice(names)) if names and rnd.random() < 0.7 else const()

    def expr(depth=1):
        k = rnd.random()
        if depth == 0 or k < 0.35:
            return operand()
        if k < 0.8:
            return (rnd.choice(["+", "-", "*"]), expr(depth - 1), expr(depth - 1))
        if k < 0.9:
            return ("neg", expr(depth - 1))
        return ("call", expr(depth - 1), operand())

    nvars = rnd.randint(2, 4)
    for i in range(nvars):
        nm = "xyzw"[i]
        k = rnd.random()
        if k < 0.35:
            e = ("uni",) + tuple(const(0, 9) for _ in range(rnd.randint(2, 3)))
        elif k < 0.55:
            e = ("disc", [(C(v), rnd.randint(1, 4)) for v in rnd.sample(range(10), rnd.randint(2, 3))])  # distinct keys
        elif k < 0.85 or not primitive:
            lo = rnd.randint(0, 2)
            hi_e = ("+", V(rnd.choice(names)), C(lo + 1)) if names and rnd.random() < 0.4 else C(lo + rnd.randint(1, 3))
            e = ("rng", C(lo) if hi_e[0] == "c" else C(0), hi_e)
        else:
            e = ("re", rnd.choice(primitive))
        if e[0] != "re":
            primitive.append(nm)
        prog.append(("let", nm, e))
        prog.append(("param", "obs_" + nm, V(nm)))  # observed at once: variables are then drawn in definition order
        names.append(nm)
    for j in range(rnd.randint(0, 2)):
        cmpop = rnd.choice(["<", "<=", "!=", "==", ">", ">="])
        prob = rnd.choice([None, None, 0.25, 0.5, 0.75])
        prog.append(("require", (cmpop, expr(1), expr(1)), prob))
    for j in range(rnd.randint(1, 3)):
        prog.append(("param", f"p{j}", expr(2)))
    return prog


def _names_in(st):
    out = set()

    def walk(e):
        if isinstance(e, tuple):
            if e and e[0] == "v":
                out.add(e[1])
            elif e and e[0] == "re":
                pass  # resampling draws a fresh copy: the original itself need not be drawn
            else:
                for x in e[1:]:
                    walk(x)
        elif isinstance(e, list):
            for x in e:
                walk(x)

    walk(st[2] if st[0] in ("let", "param") else st[1] if st[0] == "require" else ())
    return out


def generated(seed, n):
    rnd = random.Random(100 + seed)
    return {f"generated[{seed}.{i}]": gen_program(rnd) for i in range(n)}
