"""C07 - built-in specifiers and operators have their documented geometric meaning."""
import math

from symx import engine as E
from symx import models as M
from symx.runner import Obligation

PROPERTY = "C07"
PRELOAD = ["scenic.syntax.veneer", "scenic.core.object_types", "scenic.core.vectors"]
LEVEL = "other"
EXPLANATION = (
    "The built-in positional specifiers and operators are executed symbolically on reference objects / oriented "
    "points / vectors whose position, dimensions, offsets and contact tolerance are symbolic reals and whose "
    "orientation is an arbitrary 3x3 matrix standing for a rotation (the goals are bilinear identities in its "
    "entries, so no orthonormality is needed); z3 decides that the specified position is the reference's "
    "formula in the stated frame (e.g. left of X by D: X.position + R_X (-(W_X/2 + D + w/2 [+tol/2]), dy, dz)) "
    "and that the stated orientation is inherited.  The vector algebra (heading convention, offsets, distances, "
    "cross and dot products, angle normalisation) is checked against its definitions with sin/cos as a unit "
    "pair and atan2 uninterpreted.  Orientation composition / inversion / Euler conversion (scipy) is compared "
    "on seeded concrete angles only (ground check)."
)
MANIFEST_ENTRY = {
    "category": "other",
    "text": "Bounded symbolic checking (reals, arbitrary linear frame) of the directional specifiers, beyond / offset specifiers, position-of operators, relative-position/distance operators and the Vector algebra against the formulas of the reference; ground comparison of Orientation algebra on seeded angles.",
    "note": "Trusted: CrossHair, z3, reals for floats, rotation applied as a matrix (model of scipy Rotation.apply), sin/cos unit pair. Outside: scipy's own numerics, Euler-angle singularities, the facing family beyond the ground check.",
}
ASSUMPTIONS = ["floats are reals", M.SymRot.MODEL]


class SymOrientation:
    def __init__(self, rot, tag="R"):
        self.r, self.tag = rot, tag

    def getRotation(self):
        return self.r

    @property
    def _inverseRotation(self):
        return self.r.inv()


def _vec(ctx, name):
    from scenic.core.vectors import Vector

    return Vector(ctx.real(name + ".x"), ctx.real(name + ".y"), ctx.real(name + ".z"))


def mk_ref(ctx, kind):
    """Reference argument of a specifier: an Object, an OrientedPoint or a plain vector."""
    import scenic.core.object_types as OT

    if kind == "vector":
        return _vec(ctx, "X"), None
    cls = OT.Object if kind == "object" else OT.OrientedPoint
    X = cls.__new__(cls, _internal=True)
    ori = SymOrientation(M.SymRot(ctx, "RX", constrain=False))
    d = dict(position=_vec(ctx, "X.position"), orientation=ori)
    if kind == "object":
        d.update(width=ctx.real("X.width", 0, None), length=ctx.real("X.length", 0, None), height=ctx.real("X.height", 0, None))
    for k, v in d.items():
        object.__setattr__(X, k, v)
    return X, ori


SPECS = {
    "left of": ("LeftSpec", "width", 0, -1), "right of": ("RightSpec", "width", 0, +1),
    "ahead of": ("Ahead", "length", 1, +1), "behind": ("Behind", "length", 1, -1),
    "above": ("Above", "height", 2, +1), "below": ("Below", "height", 2, -1),
}


def h_directional(spec_name, ref_kind, dist_kind):
    fn, axis, ai, sign = SPECS[spec_name]

    def h(ctx):
        import scenic.syntax.veneer as V
        from scenic.core.lazy_eval import LazilyEvaluable
        from scenic.core.vectors import Vector

        M.bind(ctx)
        X, ori = mk_ref(ctx, ref_kind)
        if dist_kind == "none":
            dist, dvec = None, (0, 0, 0)
        elif dist_kind == "scalar":
            D = ctx.real("D")
            dist = D
            dvec = tuple(D if i == ai else 0 for i in range(3))
        else:
            dv = _vec(ctx, "D")
            dist, dvec = dv, tuple(dv.coordinates)
        spec = getattr(V, fn)(X, dist)
        w = ctx.real("new." + axis, 0, None)
        tol = ctx.real("new.contactTolerance", 0, None)
        self_ori = SymOrientation(M.SymRot(ctx, "Rself", constrain=False), "self")
        context = LazilyEvaluable.makeContext(**{axis: w, "contactTolerance": tol, "orientation": self_ori})
        vals = spec.getValuesFor(context)
        pos = vals["position"]
        # reference formula
        if ref_kind == "object":
            dims = (X.width, X.length, X.height)
            extra = dims[ai] / 2 + (tol / 2 if dist_kind == "none" else 0)
        else:
            extra = 0
        off = [dvec[0], dvec[1], dvec[2]]
        off[ai] = sign * (w / 2 + dvec[ai] + extra)
        if ref_kind == "vector":
            base, frame = X, self_ori.r
        else:
            base, frame = X.position, ori.r
        ro = frame.mat_vec(off)
        want = [base.x + ro[0], base.y + ro[1], base.z + ro[2]]
        for i, c in enumerate("xyz"):
            ctx.check(f"position-is-reference-plus-offset-in-its-frame[{c}]", pos[i] == want[i],
                      robust=E.sym_or(pos[i] - want[i] > 1e-4, want[i] - pos[i] > 1e-4), specifier=spec_name, reference=ref_kind, by=dist_kind)
        if ref_kind == "vector":
            ctx.check("no-orientation-inherited-from-a-plain-vector", "parentOrientation" not in vals and "parentOrientation" not in spec.priorities)
        else:
            ctx.check("inherits-the-reference's-orientation", vals.get("parentOrientation") is ori and spec.priorities.get("parentOrientation") == 3)
        ctx.check("specifies-position-with-priority-1", spec.priorities.get("position") == 1)

    return h


def h_position_of_operators(ctx):
    import scenic.core.object_types as OT
    from scenic.core.vectors import Vector

    M.bind(ctx)
    X, ori = mk_ref(ctx, "object")
    for k, d in (("hw", X.width), ("hl", X.length), ("hh", X.height)):
        object.__setattr__(X, k, d / 2)
    captured = []
    saved = OT.OrientedPoint._with

    def fake_with(**kw):
        captured.append(kw)
        return kw

    OT.OrientedPoint._with = staticmethod(fake_with)
    names = {"left": (-1, 0, 0), "right": (1, 0, 0), "front": (0, 1, 0), "back": (0, -1, 0), "top": (0, 0, 1), "bottom": (0, 0, -1),
             "frontLeft": (-1, 1, 0), "frontRight": (1, 1, 0), "backLeft": (-1, -1, 0), "backRight": (1, -1, 0),
             "topFrontLeft": (-1, 1, 1), "topFrontRight": (1, 1, 1), "topBackLeft": (-1, -1, 1), "topBackRight": (1, -1, 1),
             "bottomFrontLeft": (-1, 1, -1), "bottomFrontRight": (1, 1, -1), "bottomBackLeft": (-1, -1, -1), "bottomBackRight": (1, -1, -1)}
    try:
        for nm, sg in names.items():
            del captured[:]
            prop = getattr(OT.Object, nm)
            kw = prop.fget.__wrapped__(X)
            off = [sg[0] * X.width / 2, sg[1] * X.length / 2, sg[2] * X.height / 2]
            ro = ori.r.mat_vec(off)
            want = [X.position.x + ro[0], X.position.y + ro[1], X.position.z + ro[2]]
            p = kw["position"]
            ctx.check(f"{nm}-of-object-is-the-corresponding-point-of-its-bounding-box",
                      E.sym_and(p[0] == want[0], p[1] == want[1], p[2] == want[2]), operator=nm)
            ctx.check(f"{nm}-inherits-the-object's-orientation", kw.get("parentOrientation") is ori)
    finally:
        OT.OrientedPoint._with = saved


def h_vector_algebra(ctx):
    from scenic.core.vectors import Vector

    M.bind(ctx)
    a, b = _vec(ctx, "a"), _vec(ctx, "b")
    th = ctx.real("theta")
    c, s = M.m_cos(th), M.m_sin(th)
    r = a.rotatedBy(th)
    ctx.check("rotatedBy-is-counterclockwise-rotation-about-z",
              E.sym_and(r.x == c * a.x - s * a.y, r.y == s * a.x + c * a.y, r.z == a.z))
    up = Vector(0, 1, 0).rotatedBy(th)
    ctx.check("heading-0-is-+Y-and-positive-angles-turn-counterclockwise", E.sym_and(up.x == -s, up.y == c, up.z == 0))
    o = a.offsetRotated(th, b)
    ctx.check("offsetRotated-adds-the-rotated-offset", E.sym_and(o.x == a.x + c * b.x - s * b.y, o.y == a.y + s * b.x + c * b.y, o.z == a.z + b.z))
    rad = ctx.real("radius")
    orad = a.offsetRadially(rad, th)
    ctx.check("offsetRadially-moves-by-radius-along-heading", E.sym_and(orad.x == a.x - s * rad, orad.y == a.y + c * rad, orad.z == a.z))
    d = a.distanceTo(b)
    dd = (a.x - b.x) * (a.x - b.x) + (a.y - b.y) * (a.y - b.y) + (a.z - b.z) * (a.z - b.z)
    ctx.check("distanceTo-is-euclidean", E.sym_and(d >= 0, d * d == dd))
    ctx.check("dot-product", a.dot(b) == a.x * b.x + a.y * b.y + a.z * b.z)
    try:
        cr = a.cross(b)
        ctx.check("cross-product", E.sym_and(cr.x == a.y * b.z - a.z * b.y, cr.y == a.z * b.x - a.x * b.z, cr.z == a.x * b.y - a.y * b.x))
    except NameError as e:
        ctx.check("cross-product-is-computed", False, error="NameError")
    sm, df = a + b, a - b
    ctx.check("sum-and-difference", E.sym_and(sm.x == a.x + b.x, sm.z == a.z + b.z, df.y == a.y - b.y, df.z == a.z - b.z))
    k = ctx.real("k")
    sc = a * k
    ctx.check("scalar-multiple", E.sym_and(sc.x == a.x * k, sc.y == a.y * k, sc.z == a.z * k))


def h_normalize_angle(ctx):
    from scenic.core.geometry import normalizeAngle

    x = ctx.real("angle", -5 * math.pi, 5 * math.pi)
    r = normalizeAngle.__wrapped__(x) if hasattr(normalizeAngle, "__wrapped__") else normalizeAngle(x)
    k = ctx.int("turns", -3, 3)
    ctx.check("normalised-angle-in-[-pi,pi]", E.sym_and(r >= -math.pi, r <= math.pi))
    # congruent mod 2 pi: r - x is a whole number of turns (the number of loop iterations on this path)
    diff = (r - x) / math.tau
    ctx.check("normalised-angle-congruent-mod-2pi", E.sym_or(*[E.sym_and(diff - n < 1e-9, n - diff < 1e-9) for n in range(-3, 4)]))


def h_relative_ops(ctx):
    import scenic.syntax.veneer as V
    import scenic.core.object_types as OT
    from scenic.core.vectors import Vector

    M.bind(ctx)
    a, b = _vec(ctx, "a"), _vec(ctx, "b")
    rp = V.RelativePosition(a, b)
    ctx.check("relative-position-of-X-from-Y-is-X-minus-Y", E.sym_and(rp.x == a.x - b.x, rp.y == a.y - b.y, rp.z == a.z - b.z))
    d = V.DistanceFrom(a, b)
    dd = (a.x - b.x) * (a.x - b.x) + (a.y - b.y) * (a.y - b.y) + (a.z - b.z) * (a.z - b.z)
    ctx.check("distance-from-is-euclidean", E.sym_and(d >= 0, d * d == dd))
    ori = SymOrientation(M.SymRot(ctx, "H", constrain=False))
    oa = V.OffsetAlong(a, ori, b) if False else a.offsetLocally(ori, b)
    ro = ori.r.mat_vec(b.coordinates)
    ctx.check("offsetLocally-adds-the-offset-in-the-given-frame", E.sym_and(oa.x == a.x + ro[0], oa.y == a.y + ro[1], oa.z == a.z + ro[2]))
    # distance past: component of (position - vec) along the heading direction
    X = OT.OrientedPoint.__new__(OT.OrientedPoint, _internal=True)
    h = ctx.real("heading")
    object.__setattr__(X, "position", a)
    object.__setattr__(X, "heading", h)
    dp = X.distancePast(b)
    c, s = M.m_cos(-h), M.m_sin(-h)
    ctx.check("distance-past-is-the-offset-along-the-heading", dp == s * (a.x - b.x) + c * (a.y - b.y))


def h_relative_to(ctx):
    """`X relative to Y` for every documented pairing: the orientation obtained by starting in the SECOND direction
    and then rotating according to the first (Y * X), sums for headings and vectors, the local frame for oriented points."""
    import scenic.core.object_types as OT
    import scenic.syntax.veneer as V
    from scenic.core.vectors import Orientation

    M.bind(ctx)

    class SymOri(Orientation):
        def __init__(self, rot):
            self.r = rot

        def __mul__(self, other):
            r = other.r if isinstance(other.r, M.SymRot) else M.SymRot.concrete(other.r)
            return SymOri(self.r * r)

        __hash__ = object.__hash__

        def __eq__(self, other):
            return self is other

    def ori(name):
        return SymOri(M.SymRot(ctx, name, constrain=False))

    def op(name):
        X = OT.OrientedPoint.__new__(OT.OrientedPoint, _internal=True)
        for k, v in dict(position=_vec(ctx, name + ".position"), orientation=ori(name + ".R"), heading=ctx.real(name + ".heading")).items():
            object.__setattr__(X, k, v)
        return X

    def same_rot(a, b):
        return E.sym_and(*[a.m[i][j] == b.m[i][j] for i in range(3) for j in range(3)])

    case = ctx.choice("operands", ["orientation/orientation", "orientedpoint/orientation", "orientation/orientedpoint",
                                   "heading/orientedpoint", "orientedpoint/heading", "vector/vector",
                                   "vector/orientedpoint", "orientedpoint/vector"])
    xk, yk = case.split("/")

    def mk(kind, name):
        return {"orientation": lambda: ori(name), "orientedpoint": lambda: op(name), "heading": lambda: ctx.real(name),
                "vector": lambda: _vec(ctx, name)}[kind]()

    X, Y = mk(xk, "X"), mk(yk, "Y")
    saved = OT.OrientedPoint._with
    OT.OrientedPoint._with = staticmethod(lambda **kw: kw)  # the derived point as its constructor arguments
    try:
        got = V.RelativeTo(X, Y)
    finally:
        OT.OrientedPoint._with = saved
    kinds = {xk, yk}
    if kinds <= {"orientation", "orientedpoint"}:
        xr = X.r if xk == "orientation" else X.orientation.r
        yr = Y.r if yk == "orientation" else Y.orientation.r
        ctx.check("orientation-relative-to: start in the second direction, then rotate by the first (Y * X)",
                  same_rot(got.r, yr * xr), operands=case)
    elif kinds == {"heading", "orientedpoint"}:
        o, h = (X, Y) if xk == "orientedpoint" else (Y, X)
        ctx.check("heading-relative-to-oriented-point-adds-to-its-heading", got == o.heading + h, operands=case)
    elif kinds == {"vector"}:
        ctx.check("vector-relative-to-vector-is-the-sum", E.sym_and(got.x == X.x + Y.x, got.y == X.y + Y.y, got.z == X.z + Y.z))
    else:
        o, v = (X, Y) if xk == "orientedpoint" else (Y, X)
        w = o.orientation.r.mat_vec(v.coordinates)
        p = got["position"]
        ctx.check("vector-relative-to-oriented-point-is-in-its-local-frame",
                  E.sym_and(p[0] == o.position.x + w[0], p[1] == o.position.y + w[1], p[2] == o.position.z + w[2]), operands=case)
        ctx.check("derived-point-inherits-the-orientation", got.get("parentOrientation") is o.orientation, operands=case)


def h_project_vector(ctx):
    """`on region` as a modifying specifier: MeshRegion.projectVector returns the CLOSEST of the points hit along
    onDirection and its negation (docs/reference/specifiers.rst), or None when there is none."""
    import scenic.core.regions as R
    from scenic.core.vectors import Vector

    M.bind(ctx)
    p = [ctx.real(f"point.{c}") for c in "xyz"]
    d = [ctx.real(f"onDirection.{c}") for c in "xyz"]
    ctx.assume(E.sym_or(d[0] != 0, d[1] != 0, d[2] != 0))
    nh = ctx.choice("hits", [0, 1, 2])  # the ray query reports at most one hit per direction
    ts = [ctx.real(f"hit{i}.t") for i in range(nh)]  # hit i = point + t_i * onDirection (t > 0 forwards, < 0 backwards)
    for t in ts:
        ctx.assume(t != 0)
    if nh == 2:
        ctx.assume(ts[0] * ts[1] < 0)  # one hit in each direction
        ctx.assume(ts[0] * ts[0] != ts[1] * ts[1])  # not equidistant
    hits = [M.PyVec([p[k] + t * d[k] for k in range(3)]) for t in ts]

    class Arr(list):
        def __sub__(self, q):
            return Arr([M.PyVec([h[k] - q[k] for k in range(3)]) for h in self])

    class NP:
        newaxis = None

        @staticmethod
        def array(x):
            return M.PyVec(list(x))

        @staticmethod
        def asarray(x):
            return list(x)

        class linalg:
            @staticmethod
            def norm(v, axis=None):
                if axis == 1:
                    return [M.real_hypot(ctx, *list(r)) for r in v]
                flat = [c for r in v for c in (r if hasattr(r, "__len__") else [r])]
                return M.real_hypot(ctx, *flat)  # Frobenius norm of the whole array: one number

        @staticmethod
        def argmin(x):
            if not isinstance(x, list):
                return 0
            best = 0
            for i in range(1, len(x)):
                if x[i] < x[best]:
                    best = i
            return best

    class Ray:
        @staticmethod
        def intersects_location(ray_origins=None, ray_directions=None, multiple_hits=True):
            return Arr(hits), list(range(nh)), list(range(nh))

    class Mesh:
        ray = Ray()

    reg = object.__new__(R.MeshSurfaceRegion)
    reg.__dict__.update(mesh=Mesh(), _cached_mesh=Mesh(), containsPoint=lambda q: False)
    saved = R.numpy
    R.numpy = NP
    try:
        f = R.MeshRegion.projectVector
        got = f.__wrapped__(reg, Vector(*p), Vector(*d)) if hasattr(f, "__wrapped__") else f(reg, Vector(*p), Vector(*d))
    finally:
        R.numpy = saved
    if nh == 0:
        ctx.check("no-hit-gives-None", got is None)
        return
    ctx.check("a-point-is-returned", got is not None)
    if got is None:
        return
    # the returned point is the hit with the smallest |t|
    dd = d[0] * d[0] + d[1] * d[1] + d[2] * d[2]
    best = ts[0]
    if nh == 2:
        best = E.sym_ite(ts[0] * ts[0] < ts[1] * ts[1], ts[0], ts[1])
    want = [p[k] + best * d[k] for k in range(3)]
    ctx.check("projection-is-the-closest-point-hit-along-onDirection-or-its-negation",
              E.sym_and(got.x == want[0], got.y == want[1], got.z == want[2]), hits=nh)


def ground_beyond():
    """beyond X by O from Y on seeded concrete vectors: the offset is expressed in the frame centred at X and
    oriented along the line of sight from Y (its y axis points away from Y)."""
    import random

    import scenic.syntax.veneer as V
    from scenic.core.lazy_eval import LazilyEvaluable
    from scenic.core.vectors import Vector

    rnd = random.Random(5)
    problems, cases = [], 0
    for _ in range(40):
        X = Vector(rnd.uniform(-5, 5), rnd.uniform(-5, 5), rnd.uniform(-2, 2))
        Y = Vector(rnd.uniform(-5, 5), rnd.uniform(-5, 5), rnd.uniform(-2, 2))
        if X.distanceTo(Y) < 0.5:
            continue
        off = Vector(rnd.uniform(-2, 2), rnd.uniform(-2, 2), rnd.uniform(-2, 2))
        spec = V.Beyond(X, off, fromPt=Y)
        p = spec.getValuesFor(LazilyEvaluable.makeContext())["position"]
        cases += 1
        los = (X - Y).normalized()
        d = p - X
        if abs(d.dot(los) - off.y) > 1e-6:
            problems.append(f"component along the line of sight {d.dot(los)} != offset.y {off.y}")
        if abs(d.norm() - off.norm()) > 1e-6:
            problems.append("offset length not preserved")
        # x axis of the local frame is horizontal (perpendicular to the line of sight and to the global z axis)
        right = Vector(los.y, -los.x, 0)
        if right.norm() > 1e-6 and abs(d.dot(right.normalized()) - off.x) > 1e-6:
            problems.append(f"component to the right {d.dot(right.normalized())} != offset.x {off.x}")
        s = V.Beyond(X, 2.5, fromPt=Y)
        q = s.getValuesFor(LazilyEvaluable.makeContext())["position"]
        if (q - (X + los * 2.5)).norm() > 1e-6:
            problems.append("beyond X by D from Y != X + D * unit(X - Y)")
        if spec.priorities != {"position": 1, "parentOrientation": 3}:
            problems.append(f"priorities {spec.priorities}")
    return (not problems), " | ".join(sorted(set(problems)))[:600], cases


def ground_orientation_algebra():
    """Concrete comparison on seeded angles: composition, inversion, Euler round trip, heading convention."""
    import random

    from scenic.core.vectors import Orientation, Vector

    rnd = random.Random(3)
    problems, cases = [], 0
    for _ in range(60):
        y, p, r = rnd.uniform(-3, 3), rnd.uniform(-1.4, 1.4), rnd.uniform(-3, 3)
        o = Orientation.fromEuler(y, p, r)
        cases += 1
        if not all(abs(a - b) < 1e-7 for a, b in zip(o.eulerAngles, (y, p, r))):
            problems.append(f"Euler round trip {y, p, r} -> {o.eulerAngles}")
        y2, p2, r2 = rnd.uniform(-3, 3), rnd.uniform(-1.4, 1.4), rnd.uniform(-3, 3)
        q = Orientation.fromEuler(y2, p2, r2)
        v = Vector(rnd.uniform(-2, 2), rnd.uniform(-2, 2), rnd.uniform(-2, 2))
        lhs = v.applyRotation(o * q)
        rhs = v.applyRotation(q).applyRotation(o)
        if lhs.distanceTo(rhs) > 1e-7:
            problems.append("composition: (o*q) v != o (q v)")
        back = v.applyRotation(o).applyRotation(o.inverse)
        if back.distanceTo(v) > 1e-7:
            problems.append("inverse: o^-1 (o v) != v")
        if not (o * o.inverse).approxEq(Orientation.fromEuler(0, 0, 0)):
            problems.append("o * o^-1 != identity")
        yo = Orientation.fromEuler(y, 0, 0)
        up = Vector(0, 1, 0).applyRotation(yo)
        if abs(up.x + math.sin(y)) > 1e-7 or abs(up.y - math.cos(y)) > 1e-7:
            problems.append("heading convention: yaw rotates +Y counterclockwise")
        la = o.localAnglesFor(q)
        if not (o * Orientation.fromEuler(*la)).approxEq(q):
            problems.append("localAnglesFor: o * local != target")
    return (not problems), " | ".join(sorted(set(problems)))[:800], cases


def obligations(tier, seed):
    import scenic.core.object_types as OT
    import scenic.syntax.veneer as V
    import scenic.core.regions as R
    from scenic.core import geometry as G
    from scenic.core.vectors import Orientation, Vector

    mp = M.math_patches()
    o = dict(patches=mp, total_timeout=240.0, vc_timeout=20.0)
    mm = M.MATH_MODELS + [M.SymRot.MODEL]
    obs = []
    kinds = [("object", "none"), ("object", "scalar"), ("object", "vector"), ("oriented-point", "scalar"), ("oriented-point", "none"),
             ("vector", "scalar"), ("vector", "none"), ("vector", "vector")]
    for sname in SPECS:
        for rk, dk in kinds:
            if tier == "quick" and (rk, dk) in (("oriented-point", "none"), ("vector", "vector")):
                continue
            obs.append(Obligation(f"{sname} <{rk}> by <{dk}>", h_directional(sname, rk, dk),
                                  f"{sname} {rk} [by {dk}]: position formula in the stated frame, inherited orientation",
                                  {"positions/dimensions/offsets/tolerance": "any reals", "frame": "arbitrary 3x3 matrix"},
                                  [getattr(V, SPECS[sname][0]), V.directionalSpecHelper, OT.OrientedPoint.relativePosition, Vector.offsetLocally],
                                  mm, opts=o))
    obs += [
        Obligation("position-of-operators", h_position_of_operators, "left/right/front/back/top/bottom and corner operators of an Object",
                   {}, [OT.Object.left.fget, OT.Object.topFrontLeft.fget, OT.OrientedPoint.relativize, OT.OrientedPoint.relativePosition], mm, opts=o),
        Obligation("vector-algebra", h_vector_algebra, "Vector rotation / offsets / distance / products", {},
                   [Vector.rotatedBy, Vector.offsetRotated, Vector.offsetRadially, Vector.distanceTo, Vector.dot, Vector.cross], mm, opts=o),
        Obligation("normalizeAngle", h_normalize_angle, "normalizeAngle in [-pi,pi], congruent mod 2pi", {"angle": "|a| <= 5 pi"}, [G.normalizeAngle], [], opts=o),
        Obligation("on-region-projection", h_project_vector, "MeshRegion.projectVector (modifying `on region`): closest hit along onDirection or its negation",
                   {"point/direction": "any reals", "hits": "0, 1 or 2 (one per direction), arbitrary distances"}, [R.MeshRegion.projectVector], mm + ["trimesh ray query: symbolic hit list"], opts=o),
        Obligation("relative-to-operator", h_relative_to, "X relative to Y for all documented operand pairings (orientations as arbitrary 3x3 matrices)",
                   {"operands": "8 pairings (heading relative to heading goes through scipy and is covered by the ground orientation check)", "rotations": "arbitrary real 3x3 matrices (composition is matrix product)"},
                   [V.RelativeTo, OT.OrientedPoint.relativize], mm, opts=o),
        Obligation("relative-operators", h_relative_ops, "relative position / distance from / offsetLocally / distance past", {},
                   [V.RelativePosition, V.DistanceFrom, Vector.offsetLocally, OT.OrientedPoint.distancePast], mm, opts=o),
        Obligation("beyond", None, "beyond X by O from Y on seeded vectors (ground: Orientation.fromEuler is scipy code)", {"cases": 40}, [V.Beyond], [], ground=ground_beyond),
        Obligation("orientation-algebra", None, "Orientation composition / inversion / Euler round trip on seeded angles (ground)",
                   {"cases": 60}, [Orientation.__mul__, Orientation.localAnglesFor], [], ground=ground_orientation_algebra),
    ]
    return obs
