"""C03 - positions drawn in/on a region lie in it and are uniformly distributed."""
import math
import random

from symx import engine as E
from symx import models as M
from symx.runner import Obligation

PROPERTY = "C03"
PRELOAD = ["scenic.core.regions", "scenic.core.vectors"]
LEVEL = "other"
EXPLANATION = (
    "Closed-form samplers (disc, sector, rectangle) run symbolically with random.uniform/triangular returning "
    "arbitrary reals in their range: the returned point satisfies the region's membership definition in all "
    "three coordinates for every parameter value.  Discrete samplers: the index is drawn uniformly over "
    "exactly the members.  Generic intersection/union/difference samplers run over abstract operand regions "
    "(symbolic membership of the sampled point in each operand, symbolic sizes): the population and weights "
    "offered to random.choices, the acceptance probability of the multiplicity rejection (1/containment "
    "count) and membership of the output are decided by z3; uniformity then follows by the standard "
    "argument (stated, not solver-checked).  Polygon sampler: triangle chosen by cumulative area, point "
    "accepted iff inside the chosen triangle, height = region height.  Circumcircle pre-filter "
    "completeness (member => inside circumcircle) is a lemma for disc/rectangle and a ground comparison for "
    "the point-set x region sampler."
)
MANIFEST_ENTRY = {
    "category": "other",
    "text": "Bounded symbolic checking (reals) that every closed-form sampler returns members of its region for all RNG outcomes and parameters, that discrete samplers index exactly the members, and that the generic composed-region samplers use size weights, multiplicity rejection of probability 1-1/count and return members of the composed set.",
    "note": "Trusted: CrossHair, z3 (NRA), models of hypot/sqrt/sin/cos, RNG calls as arbitrary values in their documented range. Outside: mesh / polyline / voxel / view-region samplers (C libraries), statistical uniformity of continuous densities (needs calculus, not SMT), triangulation correctness.",
}
ASSUMPTIONS = ["floats are reals", "random.uniform(a,b) in [a,b]; random.triangular(l,h,m) in [l,h]; random.randrange(a,b) in a..b-1"]


class RNG:
    """Replaces module-level RNG entry points by symbolic draws in their documented ranges."""

    def __init__(self, ctx):
        self.ctx = ctx
        self.log = []

    def __enter__(self):
        self.saved = {k: getattr(random, k) for k in ("uniform", "triangular", "randrange", "choices", "random", "choice")}
        ctx = self.ctx

        def uniform(a, b):
            u = ctx.real("uniform")
            ctx.assume(E.sym_and(a <= u, u <= b))
            self.log.append(("uniform", a, b, u))
            return u

        def triangular(low=0.0, high=1.0, mode=None):
            u = ctx.real("triangular")
            ctx.assume(E.sym_and(low <= u, u <= high))
            self.log.append(("triangular", low, high, mode, u))
            return u

        def randrange(a, b=None):
            if b is None:
                a, b = 0, a
            i = ctx.int("randrange", a, b - 1)
            j = a
            while j < b - 1 and not (i == j):
                j += 1
            self.log.append(("randrange", a, b, j))
            return j

        def choices(population, weights=None, *, cum_weights=None, k=1):
            population = list(population)
            i = ctx.int("choices", 0, len(population) - 1)
            j = 0
            while j < len(population) - 1 and not (i == j):
                j += 1
            self.log.append(("choices", population, None if weights is None else list(weights),
                             None if cum_weights is None else list(cum_weights), j))
            return [population[j]]

        def rnd():
            u = ctx.real("random", 0, None)
            ctx.assume(u < 1)
            self.log.append(("random", u))
            return u

        def choice(seq):
            seq = list(seq)
            i = ctx.int("choice", 0, len(seq) - 1)
            j = 0
            while j < len(seq) - 1 and not (i == j):
                j += 1
            self.log.append(("choice", seq, j))
            return seq[j]

        random.uniform, random.triangular, random.randrange = uniform, triangular, randrange
        random.choices, random.random, random.choice = choices, rnd, choice
        return self

    def __exit__(self, *a):
        for k, v in self.saved.items():
            setattr(random, k, v)
        return False


def _vec(ctx, name):
    from scenic.core.vectors import Vector

    return Vector(ctx.real(name + ".x"), ctx.real(name + ".y"), ctx.real(name + ".z"))


def h_circle_sampler(ctx):
    from scenic.core.regions import CircularRegion

    M.bind(ctx)
    c = object.__new__(CircularRegion)
    c.center = _vec(ctx, "center")
    c.radius = ctx.real("radius", 0, None)
    ctx.assume(c.radius > 0)
    c.z, c.orientation = c.center.z, None
    with RNG(ctx):
        p = c.uniformPointInner()
    dx, dy = p.x - c.center.x, p.y - c.center.y
    ctx.check("sampled-point-in-disc-at-region-height",
              E.sym_and(p.z == c.center.z, dx * dx + dy * dy <= c.radius * c.radius),
              robust=E.sym_or(p.z - c.center.z > 0.01, c.center.z - p.z > 0.01, dx * dx + dy * dy > c.radius * c.radius + 0.01))


def h_sector_sampler(ctx):
    from scenic.core.regions import SectorRegion

    M.bind(ctx)
    s = object.__new__(SectorRegion)
    s.center = _vec(ctx, "center")
    s.radius = ctx.real("radius", 0, None)
    ctx.assume(s.radius > 0)
    s.heading = ctx.real("heading")
    s.angle = ctx.real("angle", 0, None)
    s.z, s.orientation = s.center.z, None
    with RNG(ctx) as rng:
        p = s.uniformPointInner()
    dx, dy = p.x - s.center.x, p.y - s.center.y
    ctx.check("sampled-point-within-radius-at-region-height",
              E.sym_and(p.z == s.center.z, dx * dx + dy * dy <= s.radius * s.radius),
              robust=E.sym_or(p.z - s.center.z > 0.01, s.center.z - p.z > 0.01, dx * dx + dy * dy > s.radius * s.radius + 0.01))
    # the polar angle offered to cos/sin is heading + pi/2 + u with |u| <= angle/2
    us = [e for e in rng.log if e[0] == "uniform"]
    ctx.check("angular-offset-drawn-within-half-angle",
              len(us) == 1 and E.sym_and(us[0][1] == -(s.angle / 2), us[0][2] == s.angle / 2), draws=len(us))


def h_rect_sampler(ctx):
    from scenic.core.regions import RectangularRegion

    M.bind(ctx)
    r = object.__new__(RectangularRegion)
    r.position = _vec(ctx, "pos")
    r.heading = ctx.real("heading")
    r.width, r.length = ctx.real("width", 0, None), ctx.real("length", 0, None)
    ctx.assume(E.sym_and(r.width > 0, r.length > 0))
    r.hw, r.hl = r.width / 2, r.length / 2
    r.z, r.orientation = r.position.z, None
    with RNG(ctx):
        p = r.uniformPointInner()
    c, s = M.m_cos(r.heading), M.m_sin(r.heading)
    dx, dy = p.x - r.position.x, p.y - r.position.y
    # local coordinates: inverse rotation by heading
    lx, ly = c * dx + s * dy, -s * dx + c * dy
    ctx.check("sampled-point-in-rectangle-at-region-height",
              E.sym_and(p.z == r.position.z, -r.hw <= lx, lx <= r.hw, -r.hl <= ly, ly <= r.hl),
              robust=E.sym_or(lx > r.hw + 0.01, lx < -r.hw - 0.01, ly > r.hl + 0.01, ly < -r.hl - 0.01,
                              p.z - r.position.z > 0.01, r.position.z - p.z > 0.01))


def h_circumcircle(kind):
    def h(ctx):
        from scenic.core.regions import CircularRegion, RectangularRegion
        from scenic.core.vectors import Vector

        M.bind(ctx)
        p = _vec(ctx, "p")
        if kind == "circle":
            reg = object.__new__(CircularRegion)
            reg.center = _vec(ctx, "center")
            reg.radius = ctx.real("radius", 0, None)
            reg.z, reg.orientation = reg.center.z, None
            reg.circumcircle = (reg.center, reg.radius)  # as set by __init__
            member = reg.containsPoint(p)
            ctx.assume(member)
        else:
            pos = _vec(ctx, "pos")
            heading = ctx.real("heading")
            w, l = ctx.real("width", 0, None), ctx.real("length", 0, None)
            hw, hl = w / 2, l / 2
            # members of the rectangle: pos + R(heading)(lx, ly), |lx|<=hw, |ly|<=hl
            lx, ly = ctx.real("lx"), ctx.real("ly")
            ctx.assume(E.sym_and(-hw <= lx, lx <= hw, -hl <= ly, ly <= hl))
            p = pos.offsetRotated(heading, Vector(lx, ly, 0))
            from scenic.core.geometry import hypot

            radius = hypot(hw, hl)  # RectangularRegion.__init__: self.radius = hypot(hw, hl)
            reg = object.__new__(RectangularRegion)
            reg.circumcircle = (pos, radius)
            import inspect

            src = inspect.getsource(RectangularRegion.__init__)
            ctx.check("constructor-still-defines-circumcircle-as-(position, hypot(hw, hl))",
                      "self.radius = hypot(hw, hl)" in src and "self.circumcircle = (self.position, self.radius)" in src)
        cc, cr = reg.circumcircle
        dx, dy, dz = p.x - cc.x, p.y - cc.y, p.z - cc.z
        ctx.check("every-member-lies-inside-the-circumcircle", dx * dx + dy * dy + dz * dz <= cr * cr,
                  robust=dx * dx + dy * dy + dz * dz > cr * cr + 0.01)

    return h


def ground_pointset_sampler():
    """PointSetRegion x {disc, sector, rectangle}: the candidates offered to random.choice are exactly the
    points of the set that the other region contains (no symbolic inputs: auxiliary ground check)."""
    from scenic.core.regions import CircularRegion, PointSetRegion, RectangularRegion, SectorRegion
    from scenic.core.vectors import Vector

    rnd = random.Random(7)
    pts = [(x * 0.5, y * 0.5, 0) for x in range(-12, 13) for y in range(-12, 13)]
    ps = PointSetRegion("grid", pts)
    cases, problems = 0, []
    regs = []
    for k in range(6):
        c = Vector(rnd.uniform(-2, 2), rnd.uniform(-2, 2))
        regs.append(CircularRegion(c, rnd.uniform(0.5, 3)))
        regs.append(SectorRegion(c, rnd.uniform(1, 4), rnd.uniform(-3, 3), rnd.choice([0.6, 1.5, 2.5, 3.1, 4.5, 6.0])))
        regs.append(RectangularRegion(c, rnd.uniform(-3, 3), rnd.uniform(0.5, 4), rnd.uniform(0.5, 4)))
    saved = random.choice
    for reg in regs:
        offered = []

        def choice(seq):
            offered.append(list(seq))
            return seq[0]

        random.choice = choice
        try:
            inter = ps.intersect(reg)
            try:
                inter.uniformPointInner()
            except Exception as e:
                offered.append([])
        finally:
            random.choice = saved
        cases += 1
        want = sorted(tuple(round(c, 6) for c in p) for p in pts if reg.containsPoint(Vector(*p)))
        got = sorted(tuple(round(c, 6) for c in p) for p in (offered[0] if offered else []))
        if got != want:
            problems.append(f"{reg!r}: sampler offers {len(got)} points, region contains {len(want)} of the set "
                            f"(e.g. missing {sorted(set(want) - set(got))[:2]})")
    # the same intersection region sampled for several values of a random operand (candidates must not be stale)
    from scenic.core.distributions import Range, Samplable

    for mk in (lambda h: RectangularRegion(Vector(0.3, -0.4), h, 1.0, 5.0), lambda h: SectorRegion(Vector(0.3, -0.4), 3.0, h, 0.9)):
        hd = Range(-3, 3)
        lazy = mk(hd)
        inter = ps.intersect(lazy)
        for hv in (0.0, 1.2, 2.4, -1.0):
            from scenic.core.utils import DefaultIdentityDict

            saved_u = random.uniform
            random.uniform = lambda a, b, hv=hv: hv
            try:
                sample = Samplable.sampleAll([inter])
            finally:
                random.uniform = saved_u
            concrete, reg = sample[inter], sample[lazy]
            offered = []
            random.choice = lambda seq: (offered.append(list(seq)), seq[0])[1]
            try:
                try:
                    concrete.uniformPointInner()
                except Exception:
                    offered.append([])
            finally:
                random.choice = saved
            cases += 1
            want = sorted(tuple(round(c, 6) for c in p) for p in pts if reg.containsPoint(Vector(*p)))
            got = sorted(tuple(round(c, 6) for c in p) for p in (offered[0] if offered else []))
            if got != want:
                problems.append(f"resampled {reg!r}: sampler offers {len(got)} points, region contains {len(want)} of the set")
    return (not problems), " | ".join(problems)[:1200], cases


# ------------------------------------------------------------------ generic samplers over abstract operands
def _abstract_regions(ctx, n, dims=None, symbolic_sizes=True):
    from scenic.core import regions as R

    class Abs(R.Region):
        AABB = None

        def __init__(self, name, dim, size):
            super().__init__(name)
            self._dim, self._size = dim, size
            self.sampled = 0

        dimensionality = property(lambda self: self._dim)
        size = property(lambda self: self._size)

        def uniformPointInner(self):
            self.sampled += 1
            LOG.append(("sample", self.name))
            return ("point-of", self.name, self.sampled)

        def _trueContainsPoint(self, point):
            return MEMBER[(self.name, point)]

        def containsPoint(self, point):
            # footprint-style membership (ignores height): a superset of true membership
            return True if MEMBER[(self.name, point)] else LOOSE[(self.name, point)]

        def containsObject(self, obj): raise NotImplementedError
        def containsRegionInner(self, other, tolerance): raise NotImplementedError
        def distanceTo(self, point): raise NotImplementedError
        def projectVector(self, point, onDirection): raise NotImplementedError

    class Member(dict):
        def __missing__(self, key):
            name, point = key
            if point[1] == name:
                v = True  # a region contains the points it samples
            else:
                v = ctx.flag(f"{point[1]}#{point[2]}_in_{name}")
            self[key] = v
            return v

    class Loose(dict):
        def __missing__(self, key):
            v = ctx.flag(f"{key[1][1]}#{key[1][2]}_above_or_below_{key[0]}")
            self[key] = v
            return v

    LOG, MEMBER, LOOSE = [], Member(), Loose()
    regs = []
    for i in range(n):
        d = dims[i] if dims else 2
        if symbolic_sizes:
            regs.append(Abs(f"R{i}", d, ctx.real(f"size{i}", 0, None)))
            ctx.assume(regs[-1]._size > 0)
        else:
            regs.append(Abs(f"R{i}", d, 1.0 + i))
    return regs, LOG, MEMBER


def h_union_sampler(n, dims, form="upper"):
    def h(ctx):
        from scenic.core import regions as R
        from scenic.core.distributions import RejectionException

        regs, LOG, MEMBER = _abstract_regions(ctx, n, dims)
        u = R.UnionRegion(*regs)
        with RNG(ctx) as rng:
            try:
                p = u.uniformPointInner()
                outcome = "point"
            except RejectionException:
                p, outcome = None, "rejected"
        ch = [e for e in rng.log if e[0] == "choices"]
        maxd = max(dims)
        large = [r for r in regs if r._dim == maxd]
        ctx.check("exactly-one-size-weighted-choice-among-largest-dimension-operands",
                  len(ch) == 1 and ch[0][1] == large and ch[0][3] is None and ch[0][2] is not None and len(ch[0][2]) == len(large)
                  and E.sym_and(*[w == r._size for w, r in zip(ch[0][2], large)]),
                  population=[r.name for r in ch[0][1]] if ch else None)
        if not ch:
            return
        target = large[ch[0][4]]
        samples = [e for e in LOG if e[0] == "sample"]
        ctx.check("point-sampled-from-the-chosen-operand-only", samples == [("sample", target.name)], samples=samples)
        pt = ("point-of", target.name, 1)
        count = sum(1 for r in regs if MEMBER[(r.name, pt)])
        us = [e for e in rng.log if e[0] == "random"]
        ctx.check("one-acceptance-draw", len(us) == 1)
        if len(us) != 1:
            return
        uu = us[0][1]
        # accepted with probability exactly 1/count: acceptance set is the upper tail {u >= 1-1/count}
        # (form "upper") or the lower tail {u < 1/count} (form "lower"); the form is fixed per exploration.
        acc = (uu >= 1 - 1.0 / count) if form == "upper" else (uu < 1.0 / count)
        if outcome == "point":
            ctx.check("output-is-the-sampled-point", p == pt)
            ctx.check("accepted-exactly-on-a-set-of-measure-1/multiplicity", acc if count > 1 else True, count=count, form=form)
        else:
            ctx.check("rejected-only-by-multiplicity-rejection", count > 1, count=count)
            ctx.check("rejected-exactly-off-a-set-of-measure-1/multiplicity", E.sym_not(acc), count=count, form=form)

    return h


def h_intersection_sampler(n, dims):
    def h(ctx):
        from scenic.core import regions as R
        from scenic.core.distributions import RejectionException

        regs, LOG, MEMBER = _abstract_regions(ctx, n, dims, symbolic_sizes=False)
        it = R.IntersectionRegion(*regs)
        with RNG(ctx) as rng:
            try:
                p = it.uniformPointInner()
                outcome = "point"
            except RejectionException:
                p, outcome = None, "rejected"
        mind = min(dims)
        allowed = {r.name for r in regs if r._dim <= mind}
        samples = [e[1] for e in LOG if e[0] == "sample"]
        ctx.check("only-lowest-dimension-operands-are-sampled", set(samples) <= allowed, samples=samples)
        ctx.check("no-rng-outside-operand-samplers", rng.log == [])
        if outcome == "point":
            ctx.check("output-belongs-to-every-operand", all(MEMBER[(r.name, p)] for r in regs))
            ctx.check("output-is-the-first-sampled-point-lying-in-all-operands",
                      p == ("point-of", samples[-1], 1) and all(
                          not all(MEMBER[(r.name, ("point-of", s, 1))] for r in regs) for s in samples[:-1]))
        else:
            ctx.check("rejected-only-if-no-sampled-point-lies-in-all-operands",
                      samples == [r.name for r in regs if r.name in allowed] and all(
                          not all(MEMBER[(r.name, ("point-of", s, 1))] for r in regs) for s in samples))

    return h


def h_difference_sampler(ctx):
    from scenic.core import regions as R
    from scenic.core.distributions import RejectionException

    regs, LOG, MEMBER = _abstract_regions(ctx, 2, [2, 2], symbolic_sizes=False)
    d = R.DifferenceRegion(regs[0], regs[1])
    with RNG(ctx) as rng:
        try:
            p = d.uniformPointInner()
            outcome = "point"
        except RejectionException:
            p, outcome = None, "rejected"
    samples = [e[1] for e in LOG if e[0] == "sample"]
    ctx.check("difference-samples-the-minuend-once", samples == ["R0"], samples=samples)
    pt = ("point-of", "R0", 1)
    inB = MEMBER[("R1", pt)]
    ctx.check("accepted-iff-not-in-subtrahend", (outcome == "point") == (not inB))
    if outcome == "point":
        ctx.check("output-is-the-sampled-point", p == pt)


def h_polygon_sampler(ctx):
    import shapely
    import shapely.geometry as sg
    from scenic.core import regions as R

    z = ctx.real("z")
    poly = sg.Polygon([(0, 0), (4, 0), (4, 2), (2, 2), (2, 4), (0, 4)])  # L-shape
    reg = R.PolygonalRegion(polygon=poly, z=z)
    if ctx.symbolic:
        from crosshair.tracers import NoTracing

        with NoTracing():  # triangulation is library code on concrete geometry
            tris, cum = reg._samplingData
    else:
        tris, cum = reg._samplingData
    inside = {}
    saved = shapely.intersects_xy
    tested = []

    def intersects_xy(tri, x, y):
        k = len(tested)
        tested.append((tri, x, y))
        return ctx.flag(f"inside{k}") if k < 2 else True  # unwinding bound: third candidate accepted

    R.shapely.intersects_xy = intersects_xy
    try:
        with RNG(ctx) as rng:
            p = reg.uniformPointInner()
    finally:
        R.shapely.intersects_xy = saved
    ch = [e for e in rng.log if e[0] == "choices"]
    areas = [t.area for t, _b in tris]
    cumw = [sum(areas[: i + 1]) for i in range(len(areas))]
    ctx.check("triangle-chosen-with-cumulative-area-weights",
              len(ch) == 1 and ch[0][2] is None and ch[0][3] is not None and
              all(abs(a - b) < 1e-9 for a, b in zip(ch[0][3], cumw)) and len(ch[0][3]) == len(cumw))
    if len(ch) != 1:
        return
    tri, bounds = tris[ch[0][4]]
    last = tested[-1]
    ctx.check("every-candidate-tested-against-the-chosen-triangle", all(t[0] is tri for t in tested))
    us = [e for e in rng.log if e[0] == "uniform"]
    ctx.check("candidates-drawn-in-the-chosen-triangle's-bounding-box",
              len(us) == 2 * len(tested) and all(
                  (us[2 * i][1], us[2 * i][2], us[2 * i + 1][1], us[2 * i + 1][2]) == (bounds[0], bounds[2], bounds[1], bounds[3])
                  for i in range(len(tested))))
    ctx.check("returned-point-is-the-accepted-candidate-at-region-height",
              E.sym_and(p.x == last[1], p.y == last[2], p.z == z))


def h_pointset_sampler(ctx):
    from scenic.core.regions import PointSetRegion

    pts = [(0, 0, 1), (1, 2, 3), (4, 5, 6), (7, 8, 9)]
    ps = PointSetRegion("ps", pts)
    with RNG(ctx) as rng:
        p = ps.uniformPointInner()
    rr = [e for e in rng.log if e[0] == "randrange"]
    ctx.check("index-drawn-uniformly-over-exactly-the-members", len(rr) == 1 and rr[0][1] == 0 and rr[0][2] == len(pts))
    if len(rr) == 1:
        ctx.check("output-is-the-indexed-member-in-all-three-coordinates", tuple(p) == tuple(float(c) for c in pts[rr[0][3]]))


def obligations(tier, seed):
    from scenic.core import regions as R

    mp = M.math_patches()
    mm = M.MATH_MODELS
    o = dict(patches=mp, total_timeout=240.0, vc_timeout=20.0)
    rng = ["random.uniform/triangular/randrange/choices/random/choice: arbitrary value in the documented range, call logged"]
    obs = [
        Obligation("circle-sampler", h_circle_sampler, "CircularRegion.uniformPointInner in disc at height", {}, [R.CircularRegion.uniformPointInner], mm + rng, opts=o),
        Obligation("sector-sampler", h_sector_sampler, "SectorRegion.uniformPointInner within radius/height; angle offset range", {}, [R.SectorRegion.uniformPointInner], mm + rng, opts=o),
        Obligation("rectangle-sampler", h_rect_sampler, "RectangularRegion.uniformPointInner in rectangle at height", {}, [R.RectangularRegion.uniformPointInner], mm + rng, opts=o),
        Obligation("circumcircle-circle", h_circumcircle("circle"), "member of disc => inside its circumcircle", {}, [R.CircularRegion.containsPoint], mm, opts=o),
        Obligation("circumcircle-rectangle", h_circumcircle("rect"), "member of rectangle => inside its circumcircle", {}, [R.RectangularRegion.__init__], mm, opts=o),
        Obligation("pointset-x-region-candidates", None, "PointSetRegion.intersect sampler offers exactly the contained points (ground)",
                   {"regions": 18, "points": 625}, [R.PointSetRegion.intersect], [], ground=ground_pointset_sampler),
        Obligation("pointset-sampler", h_pointset_sampler, "PointSetRegion.uniformPointInner", {"points": 4}, [R.PointSetRegion.uniformPointInner], rng),
        Obligation("difference-sampler", h_difference_sampler, "DifferenceRegion.genericSampler over abstract operands", {}, [R.DifferenceRegion.genericSampler], rng),
        Obligation("polygon-sampler", h_polygon_sampler, "PolygonalRegion.uniformPointInner: area weights, acceptance, height",
                   {"polygon": "concrete L-shape", "z": "symbolic", "rejections": "<=2"}, [R.PolygonalRegion.uniformPointInner],
                   rng + ["shapely.intersects_xy: symbolic Boolean"]),
    ]
    from harness.c16_regions import h_footprint_cache

    obs.append(Obligation("footprint-prism-cache", h_footprint_cache,
                          "mesh x footprint composition: the cached vertical prism of a footprint covers the requested z range (so no part of the composed region is cut off from sampling)",
                          {"cache": "arbitrary", "request": "any centre, height>0"}, [R.PolygonalFootprintRegion.approxBoundFootprint],
                          ["boundFootprint (mesh extrusion): token recording its arguments"]))
    cfgs = [(2, [2, 2]), (2, [2, 1]), (3, [2, 2, 2])] if tier == "quick" else [(2, [2, 2]), (2, [2, 1]), (3, [2, 2, 2]), (3, [3, 2, 3]), (3, [1, 1, 2])]
    for n, dims in cfgs:
        ob = Obligation(f"union-sampler{dims}", h_union_sampler(n, dims), "UnionRegion.genericSampler over abstract operands",
                        {"operands": n, "dimensionalities": dims}, [R.UnionRegion.genericSampler], rng)
        ob.alternatives = [h_union_sampler(n, dims, "lower")]
        obs.append(ob)
        obs.append(Obligation(f"intersection-sampler{dims}", h_intersection_sampler(n, dims), "IntersectionRegion.genericSampler over abstract operands",
                              {"operands": n, "dimensionalities": dims}, [R.IntersectionRegion.genericSampler], rng))
    return obs
