"""C02 - every generated scene satisfies all of its requirements (whatever order/subset the checker chose)."""
import itertools
import time as _time

from symx import engine as E
from symx.runner import Obligation

PROPERTY = "C02"
PRELOAD = ["scenic.core.scenarios", "scenic.core.sample_checking", "scenic.core.requirements"]
LEVEL = "other"
EXPLANATION = (
    "(a) One step of the real sample checkers (WeightedAcceptanceChecker.checkRequirementsInner with "
    "sortedRequirements/updateMetrics/getRequirementCost, and BasicChecker) from an ARBITRARY valid "
    "statistics state: buffers, running sums and the clock readings are symbolic reals/ints constrained only "
    "by the representation invariant, the truth of each requirement is a symbolic Boolean, optional "
    "requirements obey their documented contract (falsified optional => some active mandatory falsified). "
    "z3 decides that the verdict is the conjunction of the active mandatory requirements and that the "
    "post-state satisfies the invariant again, which covers histories of any length by induction. "
    "(b) Scenario.generateDefaultRequirements on stub scenarios with symbolic collision / occlusion / "
    "visibility flags: the produced requirements equal the specification, each visibility requirement with "
    "the full list of possible occluders. (c) The bodies of the built-in requirements over symbolic "
    "geometric predicate answers."
)
MANIFEST_ENTRY = {
    "category": "other",
    "text": "Inductive-step symbolic checking of the real requirement checkers (arbitrary statistics state, symbolic clock, symbolic truth values; n<=3 requirements) plus symbolic checking of the default-requirement construction and the built-in requirement bodies over abstract geometric predicates.",
    "note": "Trusted: CrossHair, z3, reals for times. Geometric predicates (intersects, containsObject, canSee) are uninterpreted Booleans here: their agreement with geometry is C04/C16/C17. Bounds: n<=3 requirements, buffer size 2, <=3 objects + 1 extra instance.",
}
ASSUMPTIONS = [
    "contract of optional requirements: a falsified optional requirement implies some active mandatory requirement is falsified",
    "time.perf_counter is a non-decreasing clock",
]


# ------------------------------------------------------------------ (a) checker inductive step
def h_weighted(n, B):
    def h(ctx):
        from scenic.core.requirements import SamplingRequirement
        from scenic.core.sample_checking import WeightedAcceptanceChecker
        import scenic.core.sample_checking as sc
        from collections import deque

        evaluated = []

        class StubReq(SamplingRequirement):
            def __init__(self, i, optional, truth):
                super().__init__(optional=optional)
                self.i = i
                self.truth = truth

            def falsifiedByInner(self, sample):
                evaluated.append(self.i)
                return self.truth

            @property
            def violationMsg(self):
                return f"req {self.i}"

        reqs = []
        fals = []
        for i in range(n):
            opt = ctx.flag(f"optional{i}")
            f = ctx.bool(f"falsified{i}")
            r = StubReq(i, opt, f)
            r.active = ctx.flag(f"active{i}")
            reqs.append(r)
            fals.append(f)
        # contract of optional requirements
        mand_fals = E.sym_or(*[fals[j] for j in range(n) if reqs[j].active and not reqs[j].optional])
        for i in range(n):
            if reqs[i].optional:
                ctx.assume(E.sym_or(E.sym_not(fals[i]), mand_fals))
        chk = WeightedAcceptanceChecker(bufferSize=B)
        chk.setRequirements(reqs)
        # arbitrary valid statistics state
        for r in reqs:
            buf = deque()
            sa, st = 0, 0
            for k in range(B):
                a = ctx.int(f"acc{r.i}_{k}", 0, 1)
                t = ctx.real(f"time{r.i}_{k}", 0, None)
                buf.append((a, t))
                sa, st = sa + a, st + t
            chk.buffers[r] = buf
            chk.bufferSums[r] = (sa, st)
        # symbolic non-decreasing clock
        now = [ctx.real("clock0", 0, None)]

        def perf_counter():
            d = ctx.real("dt", 0, None)
            now[0] = now[0] + d
            return now[0]

        saved = _time.perf_counter
        _time.perf_counter = perf_counter
        try:
            result = chk.checkRequirementsInner(None)
        finally:
            _time.perf_counter = saved
        act_mand = [j for j in range(n) if reqs[j].active and not reqs[j].optional]
        if result is None:
            ctx.check("accepted-only-if-every-active-mandatory-requirement-evaluated",
                      all(j in evaluated for j in act_mand), evaluated=list(evaluated), needed=act_mand)
            ctx.check("accepted-only-if-every-active-mandatory-requirement-holds",
                      E.sym_not(E.sym_or(*[fals[j] for j in act_mand])) if act_mand else True)
        else:
            ctx.check("rejected-only-if-some-active-mandatory-requirement-fails",
                      E.sym_or(*[fals[j] for j in act_mand]) if act_mand else False, message=result)
        ctx.check("inactive-requirements-never-evaluated", all(reqs[j].active for j in evaluated))
        # representation invariant re-established
        for r in reqs:
            sa, st = chk.bufferSums[r]
            tot_a, tot_t = 0, 0
            okent = True
            for (a, t) in chk.buffers[r]:
                tot_a, tot_t = tot_a + a, tot_t + t
                okent = E.sym_and(okent, E.sym_or(a == 0, a == 1), t >= 0)
            ctx.check("post-state-invariant", E.sym_and(len(chk.buffers[r]) == B, sa == tot_a, st == tot_t, okent))

    return h


def h_weighted_history(n, steps, B):
    """`steps` consecutive calls from the initial checker state with fresh symbolic activity flags, truth values
    and clock readings on every call (covers state the inductive step does not know about, e.g. caches)."""

    def h(ctx):
        from scenic.core.requirements import SamplingRequirement
        from scenic.core.sample_checking import WeightedAcceptanceChecker

        evaluated = []

        class StubReq(SamplingRequirement):
            def __init__(self, i, optional):
                super().__init__(optional=optional)
                self.i = i
                self.truth = False

            def falsifiedByInner(self, sample):
                evaluated.append(self.i)
                return self.truth

            @property
            def violationMsg(self):
                return f"req {self.i}"

        reqs = [StubReq(i, ctx.flag(f"optional{i}")) for i in range(n)]
        chk = WeightedAcceptanceChecker(bufferSize=B)
        chk.setRequirements(reqs)
        now = [0.0]

        def perf_counter():
            d = ctx.real("dt", 0, None)
            now[0] = now[0] + d
            return now[0]

        saved = _time.perf_counter
        _time.perf_counter = perf_counter
        try:
            for k in range(steps):
                del evaluated[:]
                fals = []
                for r in reqs:
                    r.active = ctx.flag(f"active{r.i}@{k}")
                    r.truth = ctx.bool(f"falsified{r.i}@{k}")
                    fals.append(r.truth)
                act_mand = [j for j in range(n) if reqs[j].active and not reqs[j].optional]
                mand_fals = E.sym_or(*[fals[j] for j in act_mand]) if act_mand else False
                for i in range(n):
                    if reqs[i].optional:
                        ctx.assume(E.sym_or(E.sym_not(fals[i]), mand_fals))
                result = chk.checkRequirementsInner(None)
                if result is None:
                    ctx.check("accepted-only-if-every-active-mandatory-requirement-evaluated",
                              all(j in evaluated for j in act_mand), call=k, evaluated=list(evaluated), needed=act_mand)
                    ctx.check("accepted-only-if-every-active-mandatory-requirement-holds", E.sym_not(mand_fals), call=k)
                else:
                    ctx.check("rejected-only-if-some-active-mandatory-requirement-fails", mand_fals, call=k)
                ctx.check("inactive-requirements-never-evaluated", all(reqs[j].active for j in evaluated), call=k)
        finally:
            _time.perf_counter = saved

    return h


def h_basic(n):
    def h(ctx):
        from scenic.core.requirements import (BlanketCollisionRequirement, IntersectionRequirement,
                                              SamplingRequirement)
        from scenic.core.sample_checking import BasicChecker

        evaluated = []

        class StubReq(SamplingRequirement):
            def __init__(self, i, optional, truth):
                super().__init__(optional=optional)
                self.i, self.truth = i, truth

            def falsifiedByInner(self, sample):
                evaluated.append(self.i)
                return self.truth

            @property
            def violationMsg(self):
                return f"req {self.i}"

        reqs, fals = [], []
        for i in range(n):
            f = ctx.bool(f"falsified{i}")
            r = StubReq(i, ctx.flag(f"optional{i}"), f)
            r.active = ctx.flag(f"active{i}")
            reqs.append(r)
            fals.append(f)
        act_mand = [j for j in range(n) if reqs[j].active and not reqs[j].optional]
        mand_fals = E.sym_or(*[fals[j] for j in act_mand]) if act_mand else False
        for i in range(n):
            if reqs[i].optional:
                ctx.assume(E.sym_or(E.sym_not(fals[i]), mand_fals))
        chk = BasicChecker(initialCollisionCheck=ctx.flag("initialCollisionCheck"))
        chk.setRequirements(reqs)
        result = chk.checkRequirements(None)
        if result is None:
            ctx.check("accepted-only-if-every-active-mandatory-requirement-evaluated",
                      all(j in evaluated for j in act_mand))
            ctx.check("accepted-only-if-every-active-mandatory-requirement-holds", E.sym_not(mand_fals))
        else:
            ctx.check("rejected-only-if-some-active-mandatory-requirement-fails", mand_fals)

    return h


# ------------------------------------------------------------------ (b) default requirements
class _RandomFlag:
    """Stands for a Boolean-valued distribution (needsSampling is true)."""

    _needsSampling = True
    _isLazy = True

    def __bool__(self):
        raise AssertionError("a random flag must not be used as a Boolean at compile time")


def _make_random_flag():
    from scenic.core.distributions import Options

    return Options([True, False])


RANDOM_FLAG = None


class StubRegion:
    def __init__(self, name):
        self.name = name


def h_default_requirements(n_objs, observers, nonobservers, require_visible):
    """observers / nonobservers: dict instance index -> observer index (instances 0..n_objs-1 are objects,
    index n_objs is an extra non-object instance (a Point))."""

    def h(ctx):
        import scenic.core.scenarios as S
        from scenic.core.regions import AllRegion

        global RANDOM_FLAG
        if RANDOM_FLAG is None:
            RANDOM_FLAG = _make_random_flag()
        from scenic.core.requirements import (BlanketCollisionRequirement, ContainmentRequirement,
                                              IntersectionRequirement, NonVisibilityRequirement,
                                              VisibilityRequirement)

        class Obj:
            pass

        objs = []
        for i in range(n_objs):
            o = Obj()
            o.name = f"o{i}"
            # three-valued flags: False, True, or random (a distribution to be sampled later)
            o.allowCollisions = ctx.choice(f"allowCollisions{i}", [False, True, RANDOM_FLAG])
            o.occluding = ctx.choice(f"occluding{i}", [False, True, RANDOM_FLAG])
            o.requireVisible = i in require_visible
            o._observingEntity = None
            o._nonObservingEntity = None
            o.regionContainedIn = None
            objs.append(o)
        extra = Obj()
        extra.name = "pt"
        extra._observingEntity = None
        extra._nonObservingEntity = None
        insts = objs + [extra]
        for k, v in observers.items():
            insts[k]._observingEntity = insts[v]
        for k, v in nonobservers.items():
            insts[k]._nonObservingEntity = insts[v]
        bounded = ctx.flag("workspace_bounded")
        own_container = StubRegion("own")
        has_own = ctx.flag("o0_has_regionContainedIn")
        if has_own:
            objs[0].regionContainedIn = own_container
        ws_region = StubRegion("ws") if bounded else AllRegion("all")

        class WS:
            region = ws_region

        sc = object.__new__(S.Scenario)
        sc.objects = tuple(objs)
        sc._instances = tuple(insts)
        sc.egoObject = objs[0]
        sc.workspace = WS()
        saved = S.convertToFootprint
        S.convertToFootprint = lambda r: r  # footprint conversion is geometry (C16)
        try:
            got = sc.generateDefaultRequirements()
        finally:
            S.convertToFootprint = saved

        def key(r):
            if isinstance(r, BlanketCollisionRequirement):
                return ("blanket", tuple(o.name for o in r.objects), r.optional)
            if isinstance(r, IntersectionRequirement):
                return ("intersect", frozenset((r.objA.name, r.objB.name)), r.optional)
            if isinstance(r, ContainmentRequirement):
                return ("contain", r.obj.name, r.container.name, r.optional)
            if isinstance(r, NonVisibilityRequirement):
                return ("notvisible", r.source.name, r.target.name, tuple(sorted(o.name for o in r.potential_occluders)), r.optional)
            if isinstance(r, VisibilityRequirement):
                return ("visible", r.source.name, r.target.name, tuple(sorted(o.name for o in r.potential_occluders)), r.optional)
            return ("other", type(r).__name__)

        gotk = sorted(map(repr, map(key, got)))
        want = []
        if S.INITIAL_COLLISION_CHECK:
            want.append(("blanket", tuple(o.name for o in objs), True))
        coll = [o for o in objs if o.allowCollisions is RANDOM_FLAG or not o.allowCollisions]
        for a, b in itertools.combinations(coll, 2):
            want.append(("intersect", frozenset((a.name, b.name)), False))
        for o in objs:
            c = o.regionContainedIn if o.regionContainedIn is not None else ws_region
            if not isinstance(c, AllRegion):
                want.append(("contain", o.name, c.name, False))
        occl = [o for o in objs if o.occluding is RANDOM_FLAG or o.occluding]
        for k, v in sorted(observers.items()):
            src, tgt = insts[v], insts[k]
            want.append(("visible", src.name, tgt.name, tuple(sorted(o.name for o in occl if o is not src and o is not tgt)), False))
        for k, v in sorted(nonobservers.items()):
            src, tgt = insts[v], insts[k]
            want.append(("notvisible", src.name, tgt.name, tuple(sorted(o.name for o in occl if o is not src and o is not tgt)), False))
        for i in sorted(require_visible):
            if objs[i] is not objs[0]:
                want.append(("visible", objs[0].name, objs[i].name,
                             tuple(sorted(o.name for o in objs if o is not objs[0] and o is not objs[i])), False))
        wantk = sorted(map(repr, want))
        ctx.check("default-requirements-equal-specification", gotk == wantk, got=gotk, want=wantk)

    return h


# ------------------------------------------------------------------ (c) requirement bodies
def h_bodies(ctx):
    from scenic.core.requirements import (ContainmentRequirement, IntersectionRequirement,
                                          NonVisibilityRequirement, VisibilityRequirement)

    calls = []

    class SObj:
        def __init__(self, name):
            self.name = name
            self.allowCollisions = ctx.flag(f"{name}.allowCollisions")
            self.occluding = ctx.flag(f"{name}.occluding")

        def intersects(self, other):
            calls.append(("intersects", self.name, other.name))
            return ANS[("intersects", frozenset((self.name, other.name)))]

        def canSee(self, target, occludingObjects=()):
            calls.append(("canSee", self.name, target.name, tuple(o.name for o in occludingObjects)))
            return ANS[("canSee", self.name, target.name)]

    class SReg:
        name = "container"

        def containsObject(self, obj):
            return ANS[("contains", obj.name)]

    a, b, c, d = SObj("a"), SObj("b"), SObj("c"), SObj("d")
    reg = SReg()
    ANS = {("intersects", frozenset(("a", "b"))): ctx.bool("a_intersects_b"), ("contains", "a"): ctx.bool("region_contains_a"),
           ("canSee", "a", "b"): ctx.bool("a_canSee_b")}
    sample = {x: x for x in (a, b, c, d, reg)}
    r = IntersectionRequirement(a, b)
    f = r.falsifiedBy(sample)
    want = E.sym_and(not (a.allowCollisions or b.allowCollisions), ANS[("intersects", frozenset(("a", "b")))])
    ctx.check("intersection-falsified-iff-overlap-and-neither-allows-collisions", want if f else E.sym_not(want))
    r = ContainmentRequirement(a, reg)
    f = r.falsifiedBy(sample)
    ctx.check("containment-falsified-iff-not-contained", E.sym_not(ANS[("contains", "a")]) if f else ANS[("contains", "a")])
    for cls, label in ((VisibilityRequirement, "visibility"), (NonVisibilityRequirement, "non-visibility")):
        del calls[:]
        r = cls(a, b, (a, b, c, d))
        f = r.falsifiedBy(sample)
        see = ANS[("canSee", "a", "b")]
        want = E.sym_not(see) if label == "visibility" else see
        ctx.check(f"{label}-falsified-iff-(not-)visible", want if f else E.sym_not(want))
        occ = tuple(o.name for o in (c, d) if o.occluding)
        ctx.check(f"{label}-passes-exactly-the-occluding-objects-other-than-source-and-target",
                  [x for x in calls if x[0] == "canSee"] == [("canSee", "a", "b", occ)], calls=list(calls), want=occ)


def obligations(tier, seed):
    import scenic.core.requirements as R
    import scenic.core.sample_checking as SC
    import scenic.core.scenarios as S

    W = SC.WeightedAcceptanceChecker
    obs = []
    ns = [1, 2] if tier == "quick" else [1, 2, 3]
    for n in ns:
        obs.append(Obligation(f"weighted-checker-step[n={n}]", h_weighted(n, 2),
                              "one checkRequirementsInner call from an arbitrary valid statistics state",
                              {"requirements": n, "buffer_size": 2, "clock": "symbolic non-decreasing reals"},
                              [W.checkRequirementsInner, W.sortedRequirements, W.updateMetrics, W.getRequirementCost,
                               R.SamplingRequirement.falsifiedBy],
                              ["time.perf_counter: fresh non-decreasing symbolic reals"],
                              opts=dict(total_timeout=400.0 if n < 3 else 1500.0, per_path_timeout=30.0)))
        obs.append(Obligation(f"basic-checker[n={n}]", h_basic(n), "BasicChecker.setRequirements + checkRequirements",
                              {"requirements": n}, [SC.BasicChecker.setRequirements, SC.BasicChecker.checkRequirementsInner,
                                                    SC.SampleChecker.checkRequirements]))
    for n, steps in ([(2, 2)] if tier == "quick" else [(2, 3), (3, 2)]):
        obs.append(Obligation(f"weighted-checker-history[n={n},calls={steps}]", h_weighted_history(n, steps, 100),
                              "consecutive checkRequirementsInner calls from the initial state, fresh flags/truths/clock per call",
                              {"requirements": n, "calls": steps, "buffer_size": 100},
                              [W.checkRequirementsInner, W.sortedRequirements, W.updateMetrics, W.getRequirementCost],
                              ["time.perf_counter: fresh non-decreasing symbolic reals"], opts=dict(total_timeout=600.0)))
    configs = [
        ("two-visible-from-points", 3, {1: 3, 2: 3}, {}, set()),
        ("visible-and-not-visible", 3, {1: 0}, {2: 3}, set()),
        ("require-visible-from-ego", 3, {}, {}, {1, 2}),
        ("point-observed-by-object", 3, {3: 1}, {3: 2}, set()),
    ]
    for name, n, ob_, nob, rv in configs:
        obs.append(Obligation(f"default-requirements[{name}]", h_default_requirements(n, ob_, nob, rv),
                              "generateDefaultRequirements == specification (pairs, containers, occluder lists)",
                              {"objects": n, "extra_instances": 1, "flags": "allowCollisions/occluding symbolic"},
                              [S.Scenario.generateDefaultRequirements, S.Scenario.containerOfObject,
                               R.VisibilityRequirement.__init__]))
    obs.append(Obligation("requirement-bodies", h_bodies, "falsifiedBy of the built-in requirements over symbolic predicate answers",
                          {"objects": 4}, [R.IntersectionRequirement.falsifiedByInner, R.ContainmentRequirement.falsifiedByInner,
                                           R.VisibilityRequirement.falsifiedByInner, R.NonVisibilityRequirement.falsifiedByInner],
                          ["intersects / containsObject / canSee: uninterpreted symbolic Booleans"]))
    # the built-in collision / containment requirements decide through these fast paths (shared with C04)
    import scenic.core.object_types as OT
    import scenic.core.regions as RG
    from harness import c04_overlap as C4

    o4 = dict(total_timeout=300.0, vc_timeout=20.0)
    obs.append(Obligation("object-intersects-object[shared with C04]", C4.h_object_intersects, "Object.intersects with the planar-box fast path and the real _isPlanarBox",
                          {"shapes": "box / non-box", "pitch/roll": "zero / non-zero"}, [OT.Object.intersects, OT.Object._isPlanarBox.fget], [C4.ASSUMPTIONS[6]], opts=o4))
    obs.append(Obligation("footprint-contains-object[shared with C04]", C4.h_footprint_contains_object, "PolygonalFootprintRegion.containsObject hull shortcut",
                          {}, [RG.PolygonalFootprintRegion.containsObject], [C4.ASSUMPTIONS[7]], opts=o4))
    return obs
