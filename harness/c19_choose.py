"""C19 - do choose/shuffle and run-time random values follow the stated probabilities."""
import os
import random

from symx import engine as E
from symx.runner import Obligation
from harness import dyn_common as D

PROPERTY = "C19"
PRELOAD = ["scenic", "scenic.core.simulators", "scenic.syntax.translator", "rv_ltl"]
LEVEL = "other"
EXPLANATION = (
    "Programs using `do choose` / `do shuffle` over sub-behaviours with step-dependent preconditions and "
    "rational weights, and distribution expressions evaluated inside behaviours, run through "
    "Simulator.simulate under CrossHair; every precondition reads a symbolic truth table and every value "
    "returned by random.choices / random.randint is symbolic and logged with the parameters of the call.  A "
    "reference interpreter requests its draws in the same way.  On every path: the population offered to "
    "each weighted draw is exactly the enabled items, in listed order, with exactly their weights (no draw "
    "when one item is enabled); choose runs exactly one item, shuffle each exactly once re-evaluating "
    "enabledness before each pick; no enabled item => rejection; each evaluation of a distribution "
    "expression issues one fresh draw with the stated parameters at that moment.  The probabilities then "
    "follow from the documented distribution of random.choices / randint."
)
MANIFEST_ENTRY = {
    "category": "other",
    "text": "Bounded symbolic checking through the real runtime: for each program (fixed corpus plus seeded generated choose/shuffle programs over behaviours and over sub-scenarios in compose blocks) and every truth table of the preconditions and every outcome of every RNG call within the horizon, the RNG requests (enabled population, order, weights, ranges, moment) and the behaviours that run equal those of a reference interpreter of the documented semantics.",
    "note": "Trusted: CrossHair, z3, the reference interpreter, random.choices / randint as documented. Bounds: <= 3 items, horizon <= 4 steps.",
}
ASSUMPTIONS = ["random.choices(pop, cum_weights=cw) picks index i with probability proportional to the i-th weight"]


def T(tag):
    return ("take", tag)


def corpus():
    P = {}

    def prog(behaviors, conds, agent_beh="Top"):
        return dict(agents=[("a0", agent_beh)], behaviors=behaviors, monitor=None, record=False, compose=None, values={}, conds=conds)

    def sub(tag, pre=None, n=1):
        body = [T(f"{tag}{i}") for i in range(n)]
        return dict(pre=[pre] if pre else [], inv=[], body=body)

    P["choose-weighted-3"] = prog({"A": sub("a", "pa"), "B": sub("b", "pb"), "C": sub("c", "pc"),
                                   "Top": [("loop", [("dochoose", [("A", 1), ("B", 2), ("C", 5)])])]}, ["pa", "pb", "pc"])
    P["choose-unweighted-2"] = prog({"A": sub("a", "pa", 2), "B": sub("b", "pb"),
                                     "Top": [("loop", [("dochoose", [("A", None), ("B", None)]), T("between")])]}, ["pa", "pb"])
    P["shuffle-3"] = prog({"A": sub("a", "pa"), "B": sub("b", "pb"), "C": sub("c", None),
                           "Top": [("doshuffle", [("A", None), ("B", None), ("C", None)]), ("loop", [T("done")])]}, ["pa", "pb"])
    P["shuffle-weighted-2"] = prog({"A": sub("a", "pa", 2), "B": sub("b", None),
                                    "Top": [("doshuffle", [("A", 3), ("B", 1)]), ("loop", [T("done")])]}, ["pa"])
    P["shuffle-weighted-3"] = prog({"A": sub("a", None), "B": sub("b", "pb"), "C": sub("c", None),
                                    "Top": [("doshuffle", [("A", 7), ("B", 2), ("C", 1)]), ("loop", [T("done")])]}, ["pb"])
    P["runtime-draws-with-keyword-parameters"] = prog({"Top": [("loop", [("drawkw", 0, 2, (1, 0, 3)), T("x")])]}, [])
    P["runtime-draws"] = prog({"Top": [("loop", [("draw", 0, 3), ("if", "again", [("draw", 0, 3)]), T("x")])]}, ["again"])
    return P


_COMPILED = {}


def compiled(name, P):
    if name not in _COMPILED:
        import scenic

        _COMPILED[name] = scenic.scenarioFromString(D.program_text(P), mode2D=True)
    return _COMPILED[name]


class RNGLog:
    def __init__(self, ctx):
        self.ctx, self.calls = ctx, []

    def __enter__(self):
        self.saved = (random.choices, random.randint)
        ctx = self.ctx

        def choices(population, weights=None, *, cum_weights=None, k=1):
            population = list(population)
            if cum_weights is not None:
                cw = list(cum_weights)
                w = [cw[0]] + [cw[i] - cw[i - 1] for i in range(1, len(cw))]
            elif weights is not None:
                w = list(weights)
            else:
                w = [1] * len(population)
            i = ctx.int("choice", 0, len(population) - 1)
            j = 0
            while j < len(population) - 1 and not (i == j):
                j += 1
            self.calls.append(("choices", tuple(w), D.now(), j, tuple(population)))
            return [population[j]]

        def randint(a, b):
            r = ctx.int("randint")
            ctx.assume(E.sym_and(a <= r, r <= b))
            self.calls.append(("randint", a, b, D.now(), r))
            return r

        random.choices, random.randint = choices, randint
        return self

    def __exit__(self, *a):
        random.choices, random.randint = self.saved
        return False


def harness_for(name, P, horizon):
    def h(ctx):
        D.reset(ctx, P["values"])
        scenario = compiled(name, P)
        scene, _ = scenario.generate(maxIterations=1, verbosity=0)
        with RNGLog(ctx) as rng:
            sim = D.simulator(None).simulate(scene, maxSteps=horizon, maxIterations=1, verbosity=0, enableReplay=False)
        outcome = "accepted" if sim is not None else "rejected"
        calls = rng.calls
        ref = D.Ref(P, horizon, 1, None)

        def source(k, weights):
            # the reference consumes the outcome of the k-th real RNG call (if it is a weighted choice)
            if k < len(calls) and calls[k][0] == "choices":
                return min(calls[k][3], len(weights) - 1)
            return 0

        ref.choice_source = source
        try:
            ref.simulate()
            want = "accepted"
        except D.RefReject:
            want = "rejected"
        ctx.check("rejected-iff-no-listed-item-is-enabled", outcome == want, got=outcome, want=want)
        req = ref.rng_requests
        n = min(len(req), len(calls))
        # requests up to the point of rejection / end must agree one by one
        ctx.check("number-of-draws", len(calls) == len(req), real=len(calls), expected=len(req),
                  real_kinds=[c[0] for c in calls], expected_kinds=[r[0] for r in req])
        for k in range(n):
            c, r = calls[k], req[k]
            if r[0] == "choices":
                ok = c[0] == "choices" and len(c[1]) == len(r[1]) and all(
                    c[1][i] * r[1][0] == r[1][i] * c[1][0] for i in range(len(r[1]))) and c[2] == r[2] \
                    and list(c[4]) == list(range(len(r[1])))
                ctx.check("weighted-draw-over-exactly-the-enabled-items-with-their-weights", ok,
                          real=(c[0], c[1], c[2]), expected=r)
            else:
                ok = c[0] == "randint" and c[3] == r[3]
                ctx.check("runtime-distribution-draws-once-at-that-moment", ok, real=c[0], expected=r)
                if c[0] == "randint":
                    ctx.check("runtime-draw-has-the-stated-range", E.sym_and(c[1] == r[1], c[2] == r[2]))
        if outcome == "accepted" and want == "accepted":
            acts_real = [e for e in D.LOG if isinstance(e[1], tuple) and e[1][0] == "apply"]
            acts_ref = [e for e in ref.log if isinstance(e[1], tuple) and e[1][0] == "apply"]
            ctx.check("behaviours-run-equal-reference", acts_real == acts_ref, real=acts_real[:8], expected=acts_ref[:8])
            ndraw = sum(1 for e in ref.log if e[1] == "draw")
            ctx.check("each-evaluation-returns-its-own-draw", len(D.DRAWN) == ndraw, seen=len(D.DRAWN), evaluations=ndraw)
            draws = [c for c in calls if c[0] == "randint"]
            if len(draws) == len(D.DRAWN):
                for (t, v), c in zip(D.DRAWN, draws):
                    ctx.check("value-seen-by-the-program-is-the-draw", E.sym_and(v == c[4], t == c[3]))
            kw = [calls[k] for k in range(n) if req[k][0] == "choices" and len(req[k]) > 3 and calls[k][0] == "choices"]
            if kw and len(kw) == len(D.DRAWN) and not draws:
                for (t, v), c in zip(D.DRAWN, kw):
                    ctx.check("value-seen-by-the-program-is-the-chosen-element", v == c[4][c[3]] and t == c[2])

    return h


def warm(name, P):
    def s():
        class C:
            def bool(self, n):
                return random.Random(n).random() < 0.7

            def int(self, n, lo=None, hi=None):
                return lo or 0

        sc = compiled(name, P)
        for _ in range(2):
            D.reset(C(), P["values"])
            try:
                scene, _ = sc.generate(maxIterations=1, verbosity=0)
                D.simulator(None).simulate(scene, maxSteps=3, maxIterations=1, verbosity=0)
            except Exception:
                pass

    return s


def obligations(tier, seed):
    import scenic.core.distributions as DI
    import scenic.core.dynamics.invocables as I

    enc = [I.Invocable._invokeSubBehavior, I.Invocable._isEnabledForAgent, DI.Distribution.__new__, DI.Options.__init__,
           DI.DiscreteRange.sampleGiven, DI.MultiplexerDistribution.sampleGiven]
    horizon = 3 if tier == "quick" else 4
    hz = lambda name: (2 if tier == "quick" else 3) if (name == "choose-weighted-3" or name.startswith("generated")) else horizon
    return [Obligation(name, harness_for(name, P, hz(name)), D.program_text(P).replace("\n", " ; ")[:400],
                       {"steps": hz(name), "items": "<=3", "preconditions": "step-indexed symbolic tables", "rng": "all outcomes (symbolic)"},
                       enc, ["random.choices / random.randint: logging models returning symbolic values"],
                       opts=dict(total_timeout=(500.0 if tier == "quick" else 2400.0), per_path_timeout=40.0), setup=warm(name, P))
            for name, P in {**corpus(), **generated(seed, int(os.environ.get("C19_GENERATED", "4" if tier == "quick" else "40")))}.items()]


# ------------------------------------------------------------------ generated choose / shuffle programs
def gen_program(rnd):
    names = ["A", "B", "C"][: rnd.choice([2, 3, 3])]
    conds = []
    behaviors = {}
    for n in names:
        pre = None
        if rnd.random() < 0.6:
            pre = "p" + n.lower()
            conds.append(pre)
        body = [T(f"{n.lower()}{i}") for i in range(rnd.choice([1, 1, 2]))]
        behaviors[n] = dict(pre=[pre] if pre else [], inv=[], body=body)
    weighted = rnd.random() < 0.6
    items = [(n, rnd.randint(1, 7) if weighted else None) for n in names]
    rnd.shuffle(items)
    kind = rnd.choice(["dochoose", "doshuffle"])
    stmt = (kind, items)
    shape = rnd.random()
    if shape < 0.4:
        top = [("loop", [stmt])]
    elif shape < 0.7:
        top = [stmt, ("loop", [T("done")])]
    elif shape < 0.85:
        top = [T("first"), stmt, ("draw", 0, 3), ("loop", [T("done")])]
    else:
        top = [("loop", [stmt, ("if", "again", [("draw", 1, 2)]), T("between")])]
        conds.append("again")
    behaviors["Top"] = top
    return dict(agents=[("a0", "Top")], behaviors=behaviors, monitor=None, record=False, compose=None, values={}, conds=conds)


def gen_compose_program(rnd):
    """`do choose` / `do shuffle` over sub-SCENARIOS with preconditions, in a compose block."""
    names = ["SA", "SB", "SC"][: rnd.choice([2, 3])]
    conds, subs = [], {}
    for n in names:
        sub = dict(compose=[("log", n.lower() + ":0"), ("wait",), ("log", n.lower() + ":1")] if rnd.random() < 0.5 else [("log", n.lower()), ("wait",)])
        if rnd.random() < 0.6:
            sub["pre"] = ["p" + n.lower()]
            conds.append("p" + n.lower())
        subs[n] = sub
    weighted = rnd.random() < 0.5
    items = [(n, rnd.randint(1, 5) if weighted else None) for n in names]
    rnd.shuffle(items)
    stmt = (rnd.choice(["dochoose", "doshuffle"]), items)
    compose = [("log", "start"), stmt, ("log", "after")] + ([("loop", [stmt])] if rnd.random() < 0.3 else [("loop", [("wait",)])])
    return dict(agents=[("a0", None)], behaviors={}, monitor=None, record=False, compose=compose, subs=subs, values={}, conds=conds)


def generated(seed, n):
    rnd = random.Random(1900 + seed)
    out = {}
    for i in range(n):
        out[f"generated[{seed}.{i}]"] = gen_compose_program(rnd) if i % 3 == 2 else gen_program(rnd)
    return out
