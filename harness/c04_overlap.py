"""C04 - object overlap and containment tests agree with exact solid geometry."""
import math

from symx import engine as E
from symx import models as M
from symx.runner import Obligation

PROPERTY = "C04"
PRELOAD = ["scenic.core.regions", "scenic.core.object_types"]
LEVEL = "other"
EXPLANATION = (
    "The overlap / containment tests are multi-pass decision procedures over answers of geometry libraries. "
    "The real procedures (MeshVolumeRegion.intersects passes 1-5, MeshVolumeRegion.containsObject passes 1-5, Object.intersects and minimumDistanceTo with "
    "their planar-box fast paths and the _isPlanarBox predicate, PolygonalFootprintRegion.containsObject) are "
    "executed symbolically; every library answer (FCL collision, point-in-mesh, boolean-operation emptiness, "
    "polygon predicates, precomputed radii, bounding boxes) is a symbolic value tied to ONE ground-truth "
    "predicate (`the solids overlap`, `the object is contained`) by textbook geometric axioms that are listed "
    "in the evidence.  z3 decides that for every valuation consistent with the axioms the procedure returns "
    "the ground truth, i.e. that no shortcut changes the answer."
)
MANIFEST_ENTRY = {
    "category": "other",
    "text": "Bounded symbolic checking of the real multi-pass overlap / containment procedures over abstract library answers constrained by geometric axioms: every shortcut (bounding spheres and boxes, inradius test, FCL surface test, convex shortcut, interior-point test, planar-box fast paths, hull shortcut) returns the ground truth for all consistent valuations.",
    "note": "Trusted: CrossHair, z3, the geometric axioms (each a textbook fact), reals for floats. Outside: that trimesh / FCL / shapely compute correct answers on concrete meshes, tolerance behaviour at touching configurations. The precomputed interior points and radii that the symbolic obligations take as inputs are checked concretely (5 shapes x 3 dimension triples x 3 poses) as an auxiliary ground check, not by the solver.",
}
ASSUMPTIONS = [
    "A1 overlap => distance of positions <= sum of circumradii",
    "A2 distance of interior points < sum of inradii => overlap; overlap => distance of interior points <= sum of the circumradii about them",
    "A3 overlap => axis-aligned bounding boxes overlap in all three dimensions",
    "A4 surfaces collide => overlap; both convex => (FCL answer <=> overlap)",
    "A5 no surface contact and both single-bodied => (overlap <=> one contains the other's interior point)",
    "A6 boolean intersection empty <=> not overlap",
    "A7 planar boxes (box shape, pitch = roll = 0): overlap <=> |dz| <= (h1+h2)/2 and footprints intersect; planar box vs polygon at height within the box: overlap <=> footprint intersects polygon",
    "A8 convex hull of the projection contains the projection: polygons contain hull => polygons contain bounding polygon",
]


class Bounds:
    """mesh.bounds stand-in: bounds[i, dim] with symbolic entries, lower <= upper."""

    def __init__(self, ctx, name):
        self.lo = [ctx.real(f"{name}.min{d}") for d in "xyz"]
        self.hi = [ctx.real(f"{name}.max{d}") for d in "xyz"]
        for a, b in zip(self.lo, self.hi):
            ctx.assume(a <= b)

    def __getitem__(self, key):
        i, dim = key
        return (self.lo if i == 0 else self.hi)[dim]


def mk_volume(ctx, name, LIB):
    from scenic.core.regions import MeshVolumeRegion

    v = object.__new__(MeshVolumeRegion)
    d = v.__dict__
    d["name"] = name
    d["position"] = M.PyVec([ctx.real(f"{name}.pos{c}") for c in "xyz"])
    d["_circumradius"] = ctx.real(f"{name}.circumradius", 0, None)
    d["_scaledShape"] = ctx.flag(f"{name}.has_precomputed_geometry")
    d["_interiorPoint"] = M.PyVec([ctx.real(f"{name}.ip{c}") for c in "xyz"])
    d["_interiorPointRadii"] = (ctx.real(f"{name}.inradius", 0, None), ctx.real(f"{name}.ipcircumradius", 0, None))
    d["_fclData"] = (name, None)
    d["isConvex"] = ctx.flag(f"{name}.convex")
    d["_bodyCount"] = 1 if ctx.flag(f"{name}.single_body") else 2

    class Mesh:
        bounds = Bounds(ctx, name)

        @staticmethod
        def contains(points):
            return [LIB["contains"](name, points[0])]

    d["mesh"] = Mesh()
    for k in list(d):  # cached properties read their private storage slot
        d["_cached_" + k] = d[k]
    return v


def h_volume_intersects(ctx):
    import scenic.core.regions as R

    M.bind(ctx)
    overlap = ctx.bool("solids_overlap")
    LIB = {}
    A = mk_volume(ctx, "A", LIB)
    B = mk_volume(ctx, "B", LIB)
    surf = ctx.bool("fcl_surfaces_collide")
    a_has_b = ctx.bool("A_contains_interior_point_of_B")
    b_has_a = ctx.bool("B_contains_interior_point_of_A")
    inter_empty = ctx.bool("boolean_intersection_empty")
    LIB["contains"] = lambda name, pt: a_has_b if name == "A" else b_has_a

    def dist2(p, q):
        return sum((p[i] - q[i]) * (p[i] - q[i]) for i in range(3))

    # ---- geometric axioms
    rs = A._circumradius + B._circumradius
    ctx.assume(E.sym_implies(overlap, dist2(A.position, B.position) <= rs * rs))
    (ia, ca), (ib, cb) = A._interiorPointRadii, B._interiorPointRadii
    dpp = dist2(A._interiorPoint, B._interiorPoint)
    ctx.assume(E.sym_implies(dpp < (ia + ib) * (ia + ib), overlap))
    ctx.assume(E.sym_implies(overlap, dpp <= (ca + cb) * (ca + cb)))
    ba, bb = A.mesh.bounds, B.mesh.bounds
    ctx.assume(E.sym_implies(overlap, E.sym_and(*[E.sym_and(ba[0, d] <= bb[1, d], bb[0, d] <= ba[1, d]) for d in range(3)])))
    ctx.assume(E.sym_implies(surf, overlap))
    if A.isConvex and B.isConvex:
        ctx.assume(E.sym_implies(overlap, surf))
    if A._bodyCount == 1 and B._bodyCount == 1:
        ctx.assume(E.sym_implies(E.sym_not(surf), E.sym_or(E.sym_and(overlap, E.sym_or(a_has_b, b_has_a)),
                                                           E.sym_and(E.sym_not(overlap), E.sym_not(E.sym_or(a_has_b, b_has_a))))))
    ctx.assume(E.sym_or(E.sym_and(inter_empty, E.sym_not(overlap)), E.sym_and(E.sym_not(inter_empty), overlap)))

    class FCL:
        @staticmethod
        def CollisionObject(geom, trans):
            return geom

        @staticmethod
        def collide(a, b):
            return True if surf else False

    class NP:
        class linalg:
            @staticmethod
            def norm(v, axis=None):
                return M.real_hypot(ctx, *list(v))

    A.__dict__["intersect"] = lambda other: (R.nowhere if (True if inter_empty else False) else "non-empty-volume")
    saved = (R.fcl, R.numpy)
    R.fcl, R.numpy = FCL, NP
    try:
        got = R.MeshVolumeRegion.intersects.__wrapped__(A, B) if hasattr(R.MeshVolumeRegion.intersects, "__wrapped__") else A.intersects(B)
    finally:
        R.fcl, R.numpy = saved
    got = True if got else False
    ctx.check("multi-pass-volume-intersection-returns-the-ground-truth", overlap if got else E.sym_not(overlap),
              precomputed=(bool(A._scaledShape), bool(B._scaledShape)), convex=(A.isConvex, B.isConvex), bodies=(A._bodyCount, B._bodyCount))


def mk_object(ctx, name, LIB):
    import scenic.core.object_types as OT
    from scenic.core.shapes import BoxShape, ConeShape
    from scenic.core.vectors import Vector

    o = OT.Object.__new__(OT.Object, _internal=True)

    class Ori:
        pitch = 0 if ctx.flag(f"{name}.pitch_is_zero") else 0.3
        roll = 0 if ctx.flag(f"{name}.roll_is_zero") else 0.2
        yaw = 0.5

    d = dict(name=name, shape=(BoxShape() if ctx.flag(f"{name}.is_box") else ConeShape()), orientation=Ori(),
             position=Vector(ctx.real(f"{name}.x"), ctx.real(f"{name}.y"), ctx.real(f"{name}.z")),
             height=ctx.real(f"{name}.height", 0, None), width=1.0, length=1.0)
    for k, v in d.items():
        object.__setattr__(o, k, v)

    class Poly:
        def __init__(self, who):
            self.who = who

        def intersects(self, other):
            return LIB["poly_intersects"](self.who, getattr(other, "who", other))

        def distance(self, other):
            return LIB["poly_distance"](self.who, other.who)

    object.__setattr__(o, "_cached__boundingPolygon", Poly(name))

    class Space:
        def __init__(self, who):
            self.who = who

        def intersects(self, other):
            return LIB["space_intersects"](self.who, other.who)

        def minimumDistanceTo(self, other):
            return LIB["space_distance"](self.who, other.who)

        _isLazy = False

    object.__setattr__(o, "_cached_occupiedSpace", Space(name))
    return o


def h_object_intersects(ctx):
    import scenic.core.object_types as OT

    overlap = ctx.bool("solids_overlap")
    foot = ctx.bool("footprints_intersect")
    LIB = {"poly_intersects": lambda a, b: foot, "space_intersects": lambda a, b: overlap}
    A, B = mk_object(ctx, "A", LIB), mk_object(ctx, "B", LIB)

    def planar(o):
        from scenic.core.shapes import BoxShape

        return isinstance(o.shape, BoxShape) and o.orientation.pitch == 0 and o.orientation.roll == 0

    # axiom A7: for two planar boxes the 2-D test plus the height test is exact
    if planar(A) and planar(B):
        dz = A.position.z - B.position.z
        hs = (A.height + B.height) / 2
        zclose = E.sym_and(dz <= hs, -dz <= hs)
        ctx.assume(E.sym_or(E.sym_and(overlap, zclose, foot), E.sym_and(E.sym_not(overlap), E.sym_not(E.sym_and(zclose, foot)))))
    got = OT.Object.intersects.__wrapped__(A, B)
    got = True if got else False
    ctx.check("object-intersection-returns-the-ground-truth-whichever-path-is-taken", overlap if got else E.sym_not(overlap),
              planar=(planar(A), planar(B)))


def h_object_min_distance(ctx):
    import scenic.core.object_types as OT

    gap = ctx.real("true_gap")  # true minimum distance (0 when overlapping)
    planar_dist = ctx.real("distance_between_footprints", 0, None)
    LIB = {"poly_distance": lambda a, b: planar_dist, "space_distance": lambda a, b: gap}
    A, B = mk_object(ctx, "A", LIB), mk_object(ctx, "B", LIB)
    object.__setattr__(A, "z", A.position.z)
    object.__setattr__(B, "z", B.position.z)

    def planar(o):
        from scenic.core.shapes import BoxShape

        return isinstance(o.shape, BoxShape) and o.orientation.pitch == 0 and o.orientation.roll == 0

    # for planar boxes at the same height and of the same height the gap is the distance between the footprints
    if planar(A) and planar(B):
        ctx.assume(E.sym_implies(E.sym_and(A.position.z == B.position.z), gap == planar_dist))
    got = A.minimumDistanceTo(B)
    ctx.check("minimum-distance-is-the-true-gap-whichever-path-is-taken", got == gap,
              robust=E.sym_or(got - gap > 0.01, gap - got > 0.01), planar=(planar(A), planar(B)))


def h_footprint_contains_object(ctx):
    import scenic.core.regions as R

    contained = ctx.bool("footprint_contains_bounding_polygon")
    hull_in = ctx.bool("footprint_contains_convex_hull_of_projection")
    ctx.assume(E.sym_implies(hull_in, contained))  # A8

    class Polys:
        def contains(self, other):
            return hull_in if other == "hull" else contained

    fp = object.__new__(R.PolygonalFootprintRegion)
    fp.__dict__["polygons"] = Polys()

    class Space:
        _boundingPolygonHull = "hull"

    class Obj:
        _isConvex = ctx.flag("object_is_convex")
        _boundingPolygon = "exact"
        occupiedSpace = Space()

    got = fp.containsObject(Obj())
    got = True if got else False
    ctx.check("footprint-containment-returns-the-ground-truth", contained if got else E.sym_not(contained))


# ------------------------------------------------------------------ MeshVolumeRegion.containsObject, passes 1-5
CONTAIN_AXIOMS = [
    "B1 contained => the axis-aligned bounding boxes overlap in all three dimensions",
    "B2 region convex: (all vertices of the object strictly inside <=> contained); all corners of the object's bounding box strictly inside => all vertices strictly inside",
    "B3 the candidate point of the object lies in the object: contained => the region contains it; region contains it and its distance to the region's surface exceeds the object's circumradius about it => contained",
    "B4 contained => every vertex of the object is within the region's circumradius about the region's candidate point",
    "B5 boolean difference object - region empty <=> contained",
]


def h_volume_contains_object(ctx):
    import scenic.core.regions as R
    from scenic.core.vectors import Vector

    contained = ctx.bool("object_contained_in_region")
    region_convex = ctx.flag("region.convex")
    obj_convex = ctx.flag("object.convex")
    bb_corners_inside = ctx.bool("all_bounding_box_corners_strictly_inside")
    verts_inside = ctx.bool("all_object_vertices_strictly_inside")
    pos_in_obj = ctx.flag("object_contains_its_position")
    obj_sample_ok = ctx.flag("object_volume_sample_succeeds")
    cand_in_region = ctx.bool("region_contains_object_candidate_point")
    r_obj = ctx.real("object_circumradius_about_candidate", 0, None)
    d_reg = ctx.real("distance_candidate_to_region_surface", 0, None)
    centre_in_region = ctx.flag("region_contains_its_bounding_box_centre")
    reg_sample_ok = ctx.flag("region_volume_sample_succeeds")
    r_reg = ctx.real("region_circumradius_about_candidate", 0, None)
    d_obj_max = ctx.real("max_distance_object_vertex_to_region_candidate", 0, None)
    diff_empty = ctx.bool("boolean_difference_empty")
    rb, ob = Bounds(ctx, "region"), Bounds(ctx, "object")

    # ---- axioms
    ctx.assume(E.sym_implies(contained, E.sym_and(*[E.sym_and(rb[0, d] <= ob[1, d], ob[0, d] <= rb[1, d]) for d in range(3)])))
    if region_convex:
        ctx.assume(E.sym_or(E.sym_and(verts_inside, contained), E.sym_and(E.sym_not(verts_inside), E.sym_not(contained))))
        ctx.assume(E.sym_implies(bb_corners_inside, verts_inside))
    ctx.assume(E.sym_implies(contained, cand_in_region))
    ctx.assume(E.sym_implies(E.sym_and(cand_in_region, d_reg > r_obj), contained))
    ctx.assume(E.sym_implies(contained, d_obj_max <= r_reg))
    ctx.assume(E.sym_or(E.sym_and(diff_empty, contained), E.sym_and(E.sym_not(diff_empty), E.sym_not(contained))))

    class Verts:
        def __init__(self, who):
            self.who = who

        def __sub__(self, point):
            return ("diff", self.who, point.who if hasattr(point, "who") else "pt")

    class Pt(Vector):
        pass

    def mkpt(who):
        p = Pt(0.0, 0.0, 0.0)
        object.__setattr__(p, "who", who) if False else None
        return p

    class Cand:
        """A point identified by a tag (coordinates are never inspected by containsObject itself)."""

        def __init__(self, who):
            self.who = who

    class Mesh:
        def __init__(self, who, bounds):
            self.who, self.bounds, self.vertices = who, bounds, Verts(who)

    class BB:
        center_mass = ("region-centre",)

    reg_mesh = Mesh("region", rb)
    reg_mesh.bounding_box = BB()

    class Space:
        mesh = Mesh("object", ob)
        num_samples = 1

        @staticmethod
        def difference(other):
            return R.nowhere if (True if diff_empty else False) else "non-empty-volume"

    class BBox:
        mesh = Mesh("object-bb", ob)

    class Obj:
        occupiedSpace = Space()
        boundingBox = BBox()
        position = Cand("object-candidate")
        _isConvex = obj_convex

        @staticmethod
        def containsPoint(p):
            return pos_in_obj

    class Marker:
        def __init__(self, what):
            self.what = what

        def __gt__(self, zero):
            return Marker(self.what)

    class PQ:
        def __init__(self, mesh):
            pass

        def signed_distance(self, pts):
            if isinstance(pts, Verts):
                return Marker("bb" if pts.who == "object-bb" else "verts")
            return [d_reg]

    class TM:
        class proximity:
            ProximityQuery = PQ

        class sample:
            @staticmethod
            def volume_mesh(mesh, n):
                ok = obj_sample_ok if mesh.who == "object" else reg_sample_ok
                return [("sample", mesh.who)] if ok else []

    class NP:
        @staticmethod
        def all(m):
            return bb_corners_inside if m.what == "bb" else verts_inside

        @staticmethod
        def max(x):
            _tag, who, about = x
            if who == "object":
                return r_obj if about == "object-candidate" else d_obj_max
            return r_reg

        class linalg:
            @staticmethod
            def norm(diff, axis=None):
                return diff

    def fake_vector(*coords):
        c = Cand("object-candidate" if coords and coords[0] == "sample" and coords[1] == "object" else "region-candidate")
        return c

    reg = object.__new__(R.MeshVolumeRegion)
    d = reg.__dict__
    d["mesh"] = reg_mesh
    d["isConvex"] = region_convex
    d["_cached_isConvex"] = region_convex
    d["_num_samples"] = 1
    d["containsPoint"] = lambda p: (cand_in_region if p.who == "object-candidate" else centre_in_region)
    for k in list(d):  # cached properties read their private storage slot
        d["_cached_" + k] = d[k]
    saved = (R.trimesh, R.numpy, R.Vector)
    R.trimesh, R.numpy, R.Vector = TM, NP, fake_vector
    try:
        f = R.MeshVolumeRegion.containsObject
        got = f.__wrapped__(reg, Obj()) if hasattr(f, "__wrapped__") else f(reg, Obj())
    finally:
        R.trimesh, R.numpy, R.Vector = saved
    got = True if got else False
    ctx.check("multi-pass-volume-containment-returns-the-ground-truth", contained if got else E.sym_not(contained),
              region_convex=region_convex, object_convex=obj_convex)


# ------------------------------------------------------------------ precomputed geometry of scaled shapes (ground)
def g_precomputed_geometry():
    """Concrete auxiliary check: for every built-in shape and a non-convex multi-body-free mesh, with non-unit
    dimensions and generic poses, the precomputed interior point lies inside the solid, the inradius ball about it
    lies inside and the circumradius balls contain every vertex."""
    import numpy
    import trimesh

    from scenic.core.object_types import Object
    from scenic.core.shapes import BoxShape, ConeShape, CylinderShape, MeshShape, SpheroidShape
    from scenic.core.vectors import Orientation, Vector

    u = trimesh.util.concatenate([trimesh.creation.box(extents=(3, 1, 1), transform=trimesh.transformations.translation_matrix((0, -1, 0))),
                                  trimesh.creation.box(extents=(1, 1, 1), transform=trimesh.transformations.translation_matrix((-1, 0, 0))),
                                  trimesh.creation.box(extents=(1, 1, 1), transform=trimesh.transformations.translation_matrix((1, 0, 0)))])
    ushape = trimesh.boolean.union([trimesh.creation.box(extents=(3, 1, 1), transform=trimesh.transformations.translation_matrix((0, -1, 0))),
                                    trimesh.creation.box(extents=(1, 1.5, 1), transform=trimesh.transformations.translation_matrix((-1, -0.25, 0))),
                                    trimesh.creation.box(extents=(1, 1.5, 1), transform=trimesh.transformations.translation_matrix((1, -0.25, 0)))])
    shapes = [("box", BoxShape()), ("cone", ConeShape()), ("cylinder", CylinderShape()), ("spheroid", SpheroidShape()),
              ("u-mesh", MeshShape(ushape))]
    cases = 0
    bad = []
    for sname, shape in shapes:
        for dims in ((1, 1, 1), (2, 0.5, 3), (0.3, 4, 1.5)):
            for pose in ((0, 0, 0), (0.7, 0, 0), (0.4, -0.9, 1.3)):
                o = Object._with(shape=shape, width=dims[0], length=dims[1], height=dims[2], position=Vector(3, -2, 5),
                                 yaw=pose[0], pitch=pose[1], roll=pose[2])
                reg = o.occupiedSpace
                ip = numpy.asarray(reg._interiorPoint, dtype=float)
                inr, circ = reg._interiorPointRadii
                verts = numpy.asarray(reg.mesh.vertices)
                cases += 1
                tag = f"{sname} dims={dims} pose={pose}"
                if not reg.mesh.contains([ip])[0]:
                    bad.append(f"{tag}: interior point {ip.round(3).tolist()} outside the solid")
                    continue
                surf = abs(trimesh.proximity.ProximityQuery(reg.mesh).signed_distance([ip])[0])
                if inr > surf + 1e-6:
                    bad.append(f"{tag}: inradius {inr:.4f} exceeds the distance {surf:.4f} to the surface")
                far = numpy.linalg.norm(verts - ip, axis=1).max()
                if circ < far - 1e-6:
                    bad.append(f"{tag}: interior-point circumradius {circ:.4f} < farthest vertex {far:.4f}")
                farp = numpy.linalg.norm(verts - numpy.asarray(o.position.coordinates), axis=1).max()
                if reg._circumradius < farp - 1e-6:
                    bad.append(f"{tag}: circumradius {reg._circumradius:.4f} < farthest vertex from position {farp:.4f}")
    return (not bad, "; ".join(bad[:4]), cases)


def obligations(tier, seed):
    import scenic.core.object_types as OT
    import scenic.core.regions as R

    o = dict(patches=M.math_patches(), total_timeout=900.0, vc_timeout=20.0, per_path_timeout=60.0)
    return [
        Obligation("volume-intersects-volume", h_volume_intersects, "MeshVolumeRegion.intersects(MeshVolumeRegion), passes 1-5",
                   {"flags": "precomputed geometry / convexity / body counts symbolic", "library answers": "symbolic under axioms A1-A6"},
                   [R.MeshVolumeRegion.intersects], ASSUMPTIONS[:6] + M.MATH_MODELS[:1], opts=o),
        Obligation("object-intersects-object", h_object_intersects, "Object.intersects with the planar-box fast path and the real _isPlanarBox",
                   {"shapes": "box / non-box", "pitch/roll": "zero / non-zero", "heights, z": "symbolic"},
                   [OT.Object.intersects, OT.Object._isPlanarBox.fget], [ASSUMPTIONS[6]], opts=o),
        Obligation("object-minimum-distance", h_object_min_distance, "Object.minimumDistanceTo fast path", {},
                   [OT.Object.minimumDistanceTo, OT.Object._isPlanarBox.fget], ["planar boxes at equal height: gap == footprint distance"], opts=o),
        Obligation("footprint-contains-object", h_footprint_contains_object, "PolygonalFootprintRegion.containsObject hull shortcut", {},
                   [R.PolygonalFootprintRegion.containsObject], [ASSUMPTIONS[7]], opts=o),
        Obligation("volume-contains-object", h_volume_contains_object, "MeshVolumeRegion.containsObject, passes 1-5",
                   {"flags": "convexity / candidate-point availability symbolic", "library answers": "symbolic under axioms B1-B5"},
                   [R.MeshVolumeRegion.containsObject], CONTAIN_AXIOMS, opts=o),
        Obligation("precomputed-geometry[ground]", None, "interior point inside the solid, inradius ball inside, circumradius balls contain all vertices: "
                   "5 shapes x 3 dimension triples x 3 poses (concrete auxiliary check of the quantities the symbolic obligations take as inputs)",
                   {"shapes": 5, "dimensions": 3, "poses": 3}, [R.MeshVolumeRegion._interiorPoint.func if hasattr(R.MeshVolumeRegion._interiorPoint, "func") else R.MeshVolumeRegion.intersects],
                   ["trimesh point-in-mesh and proximity queries as oracle"], ground=g_precomputed_geometry),
    ]
