"""C14 - simulations leave scenes, scenarios and global state untouched, even on failure."""
import builtins
import itertools

from symx import engine as E
from symx.runner import Obligation
from harness import dyn_common as D

PROPERTY = "C14"
PRELOAD = ["scenic", "scenic.core.simulators", "scenic.syntax.translator", "rv_ltl"]
LEVEL = "fault_enumeration"
EXPLANATION = (
    "(a) Override bookkeeping: programs whose sub-scenarios execute `override` statements guarded by symbolic "
    "conditions (which properties are overridden, in which scenario, how often) run through "
    "Simulator.simulate under CrossHair; after the run, and already after each overriding scenario has "
    "ended, every property reads its original value.  (b) Fault injection: a program calling a hook at "
    "every site named in the property (requirement, setup block, compose block, behaviour, monitor, guards, "
    "interrupt condition, record expression, termination condition, action application, simulator create / "
    "execute / step / read-back) is simulated with a symbolic fault point and a symbolic kind of failure "
    "(user exception, RejectSimulationException, RejectionException); afterwards all veneer globals equal "
    "their snapshot, every property of every scene object is unchanged, every object is its own dynamic "
    "proxy, and an identical follow-up simulation produces the baseline event log.  The fault point and kind "
    "are finite choices: the solver enumerates them (fault enumeration), stated as such."
)
MANIFEST_ENTRY = {
    "category": "fault_enumeration",
    "text": "Solver-driven enumeration of fault points and kinds (symbolic choice variables realised path by path) through the real simulate() on a program with hooks at every site named in the property, plus symbolic checking of override/revert bookkeeping; after every run the scene, the veneer globals and a follow-up simulation equal their baselines.",
    "note": "Trusted: CrossHair, z3, DummySimulation subclass with hooks. Bounds: one fault per run, first occurrence of each site, horizon 3 steps, <= 3 override statements in <= 2 scenarios. Outside: faults during compilation/import of models, real simulators.",
}
ASSUMPTIONS = ["one injected fault per run at the first occurrence of the chosen site"]

FAULT = [None, None]  # (site, kind)
HITS = []


class UserFault(Exception):
    pass


def _fault(site):
    HITS.append(site)
    want = FAULT[0]
    if want is not None and "@" in want:  # "site@k": the k-th occurrence of the site
        base, k = want.split("@")
        hit = base == site and HITS.count(site) == int(k)
    else:
        hit = want == site
    if hit:
        FAULT[0] = None  # first occurrence only
        kind = FAULT[1]
        if kind == "false":
            return False  # a guard / requirement / condition that does not hold (no exception inside it)
        if kind == "user":
            raise UserFault(site)
        if kind == "reject-sim":
            from scenic.core.dynamics.utils import RejectSimulationException

            raise RejectSimulationException(site)
        from scenic.core.distributions import RejectionException

        raise RejectionException(site)
    return True


builtins._symx_fault = _fault

FAULT_PROGRAM = """
class Thing(Object):
    foo: 1
    bar: 2

behavior SubB():
    precondition: _symx_fault('guard-pre')
    invariant: _symx_fault('guard-inv')
    take _symx_action('s1')
    take _symx_action('s2')

behavior Other():
    while True:
        take _symx_action('other')

behavior B():
    global leaked                     # created at run time only
    try:
        leaked = leaked + 1
    except NameError:
        leaked = 1
    _symx_log(('leaked', leaked))
    _symx_fault('behavior-start')
    try:
        take _symx_action('b1')
        _symx_fault('behavior')
        do SubB()
        while True:
            take _symx_action('b2')
    interrupt when (_symx_fault('interrupt-cond') and False):
        wait

monitor M():
    while True:
        _symx_fault('monitor')
        wait

scenario Sub():
    setup:
        _symx_fault('sub-setup')
        override ego with foo 10
        terminate after 2 steps
        record _symx_log('sub-record') as subrec
        require always _symx_fault('sub-requirement')
    compose:
        _symx_fault('sub-compose')
        override ego with bar 20
        override ego with behavior Other()
        wait
        _symx_fault('sub-compose-after-override')
        wait

scenario Main():
    setup:
        ego = new Thing at (0, 0), with name 'a0', with allowCollisions True, with behavior B()
        other = new Thing at (10, 0), with name 'a1', with allowCollisions True, with behavior B()
        record _symx_fault('record') as rec
        require monitor M()
        terminate when (_symx_fault('terminate-when') and False)
        require always _symx_fault('requirement')
    compose:
        _symx_fault('compose')
        wait                          # (a sub-scenario left over from an earlier simulation would be visible here)
        do Sub()
        _symx_fault('compose-after-sub')
        while True:
            wait
"""

SITES = ["guard-pre", "guard-inv", "behavior-start", "behavior", "interrupt-cond", "monitor", "sub-setup", "sub-requirement", "sub-compose",
         "sub-compose-after-override", "record", "terminate-when", "requirement", "compose", "compose-after-sub",
         "action", "sim-create", "sim-exec", "sim-step", "sim-read",
         "sub-requirement@2", "requirement@2", "guard-inv@2", "monitor@2", "record@2", "terminate-when@2"]
KINDS = ["user", "reject-sim", "rejection", "false"]

_SIM = []


def fault_simulator():
    from scenic.core.simulators import DummySimulation, DummySimulator, Simulation

    if not _SIM:
        class FSimulation(DummySimulation):
            def createObjectInSimulator(self, obj):
                _fault("sim-create")
                return super().createObjectInSimulator(obj)

            def executeActions(self, allActions):
                _fault("sim-exec")
                D.LOG.append((self.currentTime, ("exec", tuple((a.name, tuple(getattr(x, "tag", "?") for x in acts))
                                                               for a, acts in allActions.items()))))
                for agent, acts in allActions.items():
                    for a in acts:
                        _fault("action")
                        a.applyTo(agent, self)

            def step(self):
                _fault("sim-step")
                super().step()

            def getProperties(self, obj, properties):
                _fault("sim-read")
                return super().getProperties(obj, properties)

        class FSimulator(DummySimulator):
            def createSimulation(self, scene, **kwargs):
                return FSimulation(scene, drift=0, **kwargs)

        _SIM.append(FSimulator)
    return _SIM[0]()


_STATE = {}


def veneer_snapshot():
    import scenic.syntax.veneer as v

    names = ["activity", "currentScenario", "scenarioStack", "scenarios", "evaluatingRequirement", "_globalParameters",
             "lockedParameters", "lockedModel", "loadingModel", "currentSimulation", "runningScenarios", "currentBehavior",
             "evaluatingGuard", "mode2D"]
    snap = {}
    for n in names:
        val = getattr(v, n)
        snap[n] = repr(val) if isinstance(val, (int, bool, str, type(None), list, dict, set, tuple)) else id(val)
    import scenic.core.object_types as OT

    snap["Object-class"] = OT.Object.__name__
    return snap


def scene_snapshot(scene):
    out = []
    for o in scene.objects:
        props = {}
        for p in sorted(o.properties):
            val = object.__getattribute__(o, p) if False else getattr(o, p)
            props[p] = repr(val)[:80] if not hasattr(val, "_isRunning") else type(val).__name__
        out.append((o.name, props, object.__getattribute__(o, "_dynamicProxy") is o))
    return out


def setup_fault():
    import scenic

    sc = scenic.scenarioFromString(FAULT_PROGRAM, mode2D=True)
    scene, _ = sc.generate(maxIterations=1, verbosity=0)
    _STATE["scenario"], _STATE["scene"] = sc, scene

    class C:
        def bool(self, n):
            return False

        def int(self, n, lo=None, hi=None):
            return 0

    # baseline = first simulation after a fresh compilation (warm-up runs follow)
    D.reset(C(), {})
    FAULT[0] = None
    del HITS[:]
    fault_simulator().simulate(scene, maxSteps=4, maxIterations=1, verbosity=0)
    _STATE["baseline_log"] = list(D.LOG)
    for _ in range(2):
        D.reset(C(), {})
        del HITS[:]
        fault_simulator().simulate(scene, maxSteps=4, maxIterations=1, verbosity=0)
    if list(D.LOG) != _STATE["baseline_log"]:
        _STATE["baseline_drift"] = True
    _STATE["baseline_hits"] = list(HITS)
    _STATE["veneer"] = veneer_snapshot()
    _STATE["scene_snap"] = scene_snapshot(scene)


def h_fault(ctx, kind=None):
    scene = _STATE["scene"]
    site = ctx.choice("fault-site", SITES)
    kind = kind or ctx.choice("fault-kind", KINDS)
    D.reset(ctx, {})
    del HITS[:]
    FAULT[0], FAULT[1] = site, kind
    outcome = None
    try:
        sim = fault_simulator().simulate(scene, maxSteps=4, maxIterations=1, verbosity=0)
        outcome = "completed" if sim is not None else "rejected"
    except UserFault:
        outcome = "user-exception"
    except Exception as e:
        outcome = "other:" + type(e).__name__
    fired = FAULT[0] is None
    FAULT[0] = None
    ctx.check("fault-site-was-reached", fired, site=site)
    if kind == "user":
        ctx.check("user-exception-propagates", outcome == "user-exception", outcome=outcome, site=site)
    elif kind == "false":
        # a false value is a violation only at guards / requirements; elsewhere it is an ordinary value
        ctx.check("a-false-guard-or-condition-never-raises-anything-but-a-rejection", outcome in ("completed", "rejected")
                  or outcome.startswith("other:Rejec") or outcome == "other:GuardViolation", outcome=outcome, site=site)
    else:
        ctx.check("rejection-yields-no-simulation-or-a-rejection-error", outcome in ("rejected",) or outcome.startswith("other:Rejec")
                  or outcome == "other:GuardViolation", outcome=outcome, site=site, kind=kind)
    snap = veneer_snapshot()
    diff = {k: (snap[k], _STATE["veneer"][k]) for k in snap if snap[k] != _STATE["veneer"][k]}
    ctx.check("interpreter-globals-restored", not diff, differing=diff, site=site, kind=kind)
    ssnap = scene_snapshot(scene)
    bad = [(a[0], {p: (a[1][p], b[1][p]) for p in a[1] if a[1][p] != b[1].get(p)}, a[2]) for a, b in zip(ssnap, _STATE["scene_snap"]) if a != b]
    ctx.check("scene-objects-unchanged-and-proxies-disabled", not bad, changed=bad, site=site, kind=kind)
    # follow-up runs behave like the baseline: the same scene again, and a newly generated scene
    for which in ("same-scene", "new-scene"):
        D.reset(ctx, {})
        del HITS[:]
        try:
            sc2 = scene if which == "same-scene" else _STATE["scenario"].generate(maxIterations=1, verbosity=0)[0]
            sim2 = fault_simulator().simulate(sc2, maxSteps=4, maxIterations=1, verbosity=0)
            out2 = "completed" if sim2 is not None else "rejected"
        except Exception as e:
            out2 = "error:" + type(e).__name__
        first = next((i for i, (a, b) in enumerate(zip(D.LOG, _STATE["baseline_log"])) if a != b), min(len(D.LOG), len(_STATE["baseline_log"])))
        ctx.check(f"follow-up-simulation-equals-baseline[{which}]", out2 == "completed" and list(D.LOG) == _STATE["baseline_log"],
                  outcome=out2, site=site, kind=kind, first_difference=first, got=D.LOG[first:first + 2], want=_STATE["baseline_log"][first:first + 2])


# ------------------------------------------------------------------ (a) overrides
OVERRIDE_PROGRAM = """
class Thing(Object):
    foo: 1
    bar: 2
    baz: 3

def snap(tag):
    _symx_log((tag, ego.foo, ego.bar, ego.baz))

scenario Inner():
    compose:
        if _symx_cond('i1'):
            override ego with baz 300
        snap('inner')
        wait

scenario Sub():
    compose:
        if _symx_cond('o1'):
            override ego with foo 10
        wait
        if _symx_cond('o2'):
            override ego with bar 20
        snap('sub-mid')
        do Inner()
        snap('sub-after-inner')
        if _symx_cond('o3'):
            override ego with foo 30, with baz 31
        snap('sub-end')
        wait

scenario Main():
    setup:
        ego = new Thing at (0, 0), with name 'a0', with allowCollisions True
    compose:
        snap('start')
        do Sub()
        snap('after-sub')
        wait
        snap('end')
"""


NESTED_PROGRAM = """
class Thing(Object):
    foo: 1

def snap(tag):
    _symx_log((tag, ego.foo))

scenario Inner():
    compose:
        if _symx_cond('inner_overrides'):
            override ego with foo 300
        while True:
            snap('inner')
            wait

scenario Sub():
    compose:
        if _symx_cond('sub_overrides'):
            override ego with foo 10
        snap('sub')
        do Inner()

scenario Main():
    setup:
        ego = new Thing at (0, 0), with name 'a0', with allowCollisions True
    compose:
        do Sub() for 2 steps
        snap('after-sub')
        wait
        snap('end')
"""


def setup_nested():
    import scenic

    sc = scenic.scenarioFromString(NESTED_PROGRAM, mode2D=True)
    _STATE["nscene"] = sc.generate(maxIterations=1, verbosity=0)[0]

    class C:
        def bool(self, n):
            return True

    for _ in range(2):
        D.reset(C(), {})
        try:
            D.simulator(None).simulate(_STATE["nscene"], maxSteps=6, maxIterations=1, verbosity=0)
        except Exception:
            pass


def h_nested_override(ctx):
    scene = _STATE["nscene"]
    D.reset(ctx, {})
    sim = D.simulator(None).simulate(scene, maxSteps=6, maxIterations=1, verbosity=0)
    ctx.check("simulation-completes", sim is not None)
    snaps = [e[1] for e in D.LOG if isinstance(e[1], tuple) and e[1][0] in ("sub", "inner", "after-sub", "end")]
    after = [v for t, v in snaps if t in ("after-sub", "end")]
    ctx.check("parent-scenario-stopped-while-child-overrides-the-same-property: original value restored",
              after == [1, 1], snapshots=snaps)
    ctx.check("scene-object-reads-original-value-after-the-simulation", scene.objects[0].foo == 1, got=scene.objects[0].foo)


def setup_override():
    import scenic

    sc = scenic.scenarioFromString(OVERRIDE_PROGRAM, mode2D=True)
    scene, _ = sc.generate(maxIterations=1, verbosity=0)
    _STATE["oscene"] = scene

    class C:
        def bool(self, n):
            return True

    for _ in range(2):
        D.reset(C(), {})
        try:
            D.simulator(None).simulate(scene, maxSteps=8, maxIterations=1, verbosity=0)
        except Exception:
            pass


def h_override(ctx):
    scene = _STATE["oscene"]
    D.reset(ctx, {})
    sim = D.simulator(None).simulate(scene, maxSteps=8, maxIterations=1, verbosity=0)
    ctx.check("simulation-completes", sim is not None)
    snaps = {e[1][0]: e[1][1:] for e in D.LOG if isinstance(e[1], tuple) and e[1][0] in
             ("start", "inner", "sub-mid", "sub-after-inner", "sub-end", "after-sub", "end")}
    o1, o2, o3, i1 = (D.TABLE.get((n, t)) for n, t in (("o1", 0), ("o2", 1), ("o3", 2), ("i1", 1)))
    ctx.check("original-values-at-start", snaps.get("start") == (1, 2, 3), got=snaps.get("start"))
    ego = scene.objects[0]
    ctx.check("every-override-undone-when-its-scenario-ends", snaps.get("after-sub") == (1, 2, 3), got=snaps.get("after-sub"),
              overrides=dict(o1=bool(o1), o2=bool(o2), o3=bool(o3), inner=bool(i1)))
    ctx.check("inner-scenario-override-undone-when-it-ends",
              snaps.get("sub-after-inner") == ((10 if o1 else 1), (20 if o2 else 2), 3), got=snaps.get("sub-after-inner"))
    ctx.check("scene-object-reads-original-values-after-the-simulation", (ego.foo, ego.bar, ego.baz) == (1, 2, 3),
              got=(ego.foo, ego.bar, ego.baz))


def obligations(tier, seed):
    import scenic.core.dynamics.scenarios as S
    import scenic.core.object_types as OT
    import scenic.core.simulators as SM
    import scenic.syntax.veneer as V

    enc = [SM.Simulation.__init__, SM.Simulator._runSingleSimulation, V.beginSimulation, V.endSimulation,
           S.DynamicScenario._stop, S.DynamicScenario._override, OT.Constructible._override, OT.Constructible._revert,
           OT.disableDynamicProxyFor]
    return [
        Obligation("override-bookkeeping", h_override, "overrides in nested scenarios guarded by symbolic conditions are all undone",
                   {"override_statements": 4, "scenarios": 3, "which_overrides_happen": "symbolic"}, enc,
                   ["DummySimulation with logging hooks"], opts=dict(total_timeout=300.0), setup=setup_override),
        Obligation("nested-override-same-property", h_nested_override,
                   "a scenario stopped (do ... for N steps) while its running child overrides the same property restores the original value",
                   {"which scenarios override": "symbolic"}, enc, ["DummySimulation with logging hooks"], opts=dict(total_timeout=300.0), setup=setup_nested),
        *[Obligation(f"fault-injection[{kind}]", (lambda ctx, kind=kind: h_fault(ctx, kind)),
                     f"a {kind} fault at any hooked site (first or second occurrence): state restored, follow-up runs on the same and on a new scene equal the baseline",
                     {"sites": len(SITES), "kind": kind, "steps": 4}, enc, ["DummySimulation subclass with fault hooks"],
                     opts=dict(total_timeout=600.0, per_path_timeout=60.0), setup=setup_fault) for kind in KINDS],
    ]
