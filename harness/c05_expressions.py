"""C05 - expressions over random values evaluate as in plain Python on the samples."""
import collections
import math
import random

from symx import engine as E
from symx import models as M
from symx.runner import Obligation

PROPERTY = "C05"
PRELOAD = ["scenic.core.distributions", "scenic.core.vectors", "scenic.core.geometry", "scenic.core.lazy_eval"]
LEVEL = "other"
EXPLANATION = (
    "(a) Forest evaluation: expression trees are built through the real lifting API (operators and reflected "
    "operators on Distribution objects, attribute access, indexing / slicing, lifted functions and methods, "
    "tuple / list / dict / namedtuple literals, star-unpacking, vectors, the algebraic identity shortcuts) over "
    "leaf distributions whose samples are symbolic integers / reals; Samplable.sampleAll evaluates the forest; "
    "the reference is the SAME Python expression applied to the sampled leaves; z3 decides equality for all "
    "leaf values.  (b) Lazily evaluated operands (DelayedArgument) inside operator / call nodes, positional and "
    "keyword.  (c) Support intervals: for every node kind that reports one, for all operand supports and all "
    "operand values inside them, the value lies in the reported interval (nonlinear real arithmetic)."
)
MANIFEST_ENTRY = {
    "category": "other",
    "text": "Bounded symbolic (differential) checking of the real expression-lifting machinery: lifted expression == plain Python on the sampled leaves (value and type) for all leaf values, on a fixed corpus and on seeded generated expressions, lazy operands evaluated in context, and soundness of every reported support interval for all operand supports and values.",
    "note": "Trusted: CrossHair, z3, reals for floats; the reference is ordinary Python evaluation of the same expression. Bounds: expression depth <= 3, <= 3 leaves. Outside: type-inference annotations, TruncatedNormal sampling.",
}
ASSUMPTIONS = ["floats are reals"]


def leaf_class():
    from scenic.core.distributions import Distribution

    class Leaf(Distribution):
        """A primitive random value whose sample is supplied by the harness."""

        def __init__(self, name, sampler, support=(None, None), valueType=float):
            super().__init__(valueType=valueType)
            self.name, self.sampler, self.sup = name, sampler, support
            self.draws = 0

        def sampleGiven(self, value):
            self.draws += 1
            return self.sampler()

        def supportInterval(self):
            return self.sup

    return Leaf


# ------------------------------------------------------------------ (a) forest evaluation
NT = collections.namedtuple("NT", "a b")


def expression_corpus():
    from scenic.core.distributions import distributionFunction, distributionMethod
    from scenic.core.vectors import Vector

    f2 = lambda a, b: 3 * a - b

    class Box:
        def __init__(self, v):
            self.v = v

        def twice(self, k):
            return 2 * self.v + k

    lifted = distributionFunction(f2)
    C = {
        "arithmetic": lambda x, y, z: (x + y) * 2 - z / 4 + (-x) + abs(y - z),
        "reflected": lambda x, y, z: (5 - x) + (2 * y) + (7 + z) + 12 / (abs(y) + 1) - (1 - (3 - x)),
        "identity-shortcuts": lambda x, y, z: (x + 0, 0 + x, x - 0, 0 - x, x * 1, 1 * x, x / 1, 0 * y, y * 0),
        "float-constants-on-integer-values": lambda x, y, z: ((x * y) * 1.0, x + 0.0, 0.0 + y, (z * 2) / 1, 1.0 * z, x - 0.0, (x + y) * 1),
        "unit-divisor-and-exponent": lambda x, y, z: (x // 1, y / 1, z ** 1, (x + y) // 1, 1 * (z // 1), x // 1 + y // 1),
        "tuple-list-index": lambda x, y, z: ((x, y, z)[1], [x, y + 1][0], (x, (y, z))[1][1]),
        "slice": lambda x, y, z: (x, y, z, x + y)[1:3],
        "dict-literal": lambda x, y, z: {"k": x + y, "m": z}["k"],
        "namedtuple": lambda x, y, z: NT(x + 1, y).a + NT(z, y * 2).b,
        "lifted-function": lambda x, y, z: (lifted if any(hasattr(v, "sampleGiven") for v in (x, y)) else f2)(x, y) + z,
        "starred-call": lambda x, y, z: (lifted(*toD((x, y))) if hasattr(x, "sampleGiven") else f2(*(x, y))),
        "vector-ops": lambda x, y, z: ((Vector(x, y, z) + Vector(1, 2, 3)) * 2 - Vector(z, 0, 0)).coordinates,
        "vector-attribute": lambda x, y, z: Vector(x, y, 0).x + Vector(0, y, z).z,
        "round-floordiv-mod": lambda x, y, z: (x // 2, x % 3, divmod(x, 4)[0] if not hasattr(x, "sampleGiven") else x // 4),
    }
    return C



# ------------------------------------------------------------------ generated expressions
def gen_expression(rnd, integer):
    """Source text of a random expression over x, y, z (operators with constants on either side, unary operators, tuple
    construction and indexing, calls of a lifted function)."""
    consts = ["0", "1", "2", "-1", "3"] if integer else ["0", "1", "2", "-1", "0.5", "1.0"]

    def atom():
        return rnd.choice(["x", "y", "z"]) if rnd.random() < 0.65 else rnd.choice(consts)

    def expr(d):
        k = rnd.random()
        if d == 0 or k < 0.25:
            return atom()
        if k < 0.60:
            return f"({expr(d - 1)} {rnd.choice(['+', '-', '*'])} {expr(d - 1)})"
        if k < 0.70:
            return f"({expr(d - 1)} {rnd.choice(['//', '%'])} {rnd.choice(['1', '2', '3'])})"
        if k < 0.78:
            return f"({expr(d - 1)} / {rnd.choice(['1', '2', '4'])})"
        if k < 0.84:
            return f"({expr(d - 1)} ** {rnd.choice(['1', '2'])})"
        if k < 0.90:
            return rnd.choice(["(-%s)", "abs(%s)", "(+%s)"]) % expr(d - 1)
        if k < 0.95:
            return f"({expr(d - 1)}, {expr(d - 1)})[{rnd.choice([0, 1])}]"
        return f"LIFTED({expr(d - 1)}, {atom()})"

    return "(" + ", ".join(expr(2) for _ in range(3)) + ")"


def generated_expressions(seed, n):
    rnd = random.Random(500 + seed)
    out = {}
    for i in range(n):
        integer = rnd.random() < 0.4
        out[f"generated[{seed}.{i}]{'[int]' if integer else ''}"] = (gen_expression(rnd, integer), integer)
    return out


def toD(t):
    from scenic.core.distributions import toDistribution

    return toDistribution(t)


def h_forest(name, integer, source=None):
    def h(ctx):
        from scenic.core.distributions import Samplable, needsSampling, toDistribution

        Leaf = leaf_class()
        mk = (lambda n: ctx.int(n, -4, 4)) if integer else (lambda n: ctx.real(n, -4, 4))
        vals = {}

        def sampler(n):
            def s():
                vals[n] = mk(n)
                return vals[n]

            return s

        leaves = [Leaf(n, sampler(n), valueType=(int if integer else float)) for n in "xyz"]
        if source is not None:
            from scenic.core.distributions import distributionFunction

            f2 = lambda a, b: 3 * a - b
            lifted_f = distributionFunction(f2)
            code = compile(source, "<generated expression>", "eval")
            expr = lambda x, y, z: eval(code, {"LIFTED": lifted_f if any(hasattr(v, "sampleGiven") for v in (x, y, z)) else f2,
                                               "abs": abs}, {"x": x, "y": y, "z": z})
        else:
            expr = expression_corpus()[name]
        lifted = toDistribution(expr(*leaves))
        sample = Samplable.sampleAll([lifted] if needsSampling(lifted) else [])
        got = sample[lifted] if needsSampling(lifted) else lifted
        for lf in leaves:
            if lf.name not in vals:
                vals[lf.name] = mk(lf.name)  # leaf not needed by the expression
        ctx.check("each-leaf-sampled-at-most-once", all(lf.draws <= 1 for lf in leaves), draws=[lf.draws for lf in leaves])
        want = expr(vals["x"], vals["y"], vals["z"])

        def flat(v):
            if isinstance(v, (tuple, list)):
                out = []
                for u in v:
                    out += flat(u)
                return out
            return [v]

        g, w = flat(got), flat(want)
        ctx.check("same-shape-as-plain-python", len(g) == len(w) and type(got) == type(want) or (len(g) == len(w) and not isinstance(want, (tuple, list))),
                  got_type=type(got).__name__, want_type=type(want).__name__)
        def kind(v):
            from crosshair.libimpl.builtinslib import RealBasedSymbolicFloat, SymbolicInt

            if isinstance(v, bool):
                return "bool"
            if isinstance(v, (int, SymbolicInt)):
                return "int"
            if isinstance(v, (float, RealBasedSymbolicFloat)):
                return "float"
            return type(v).__name__

        for i, (a, b) in enumerate(zip(g, w)):
            ctx.check("lifted-expression-equals-plain-python-on-the-samples", a == b, component=i, expression=name)
            ctx.check("lifted-expression-has-the-type-plain-python-gives", kind(a) == kind(b), component=i, expression=name, got=kind(a), want=kind(b))

    return h


def h_lazy_operands(ctx):
    """Operator / call nodes with lazily evaluated operands (positional and keyword)."""
    from scenic.core.distributions import Samplable, needsSampling
    from scenic.core.lazy_eval import DelayedArgument, LazilyEvaluable, valueInContext

    Leaf = leaf_class()
    xv = ctx.int("x", -4, 4)
    scale = ctx.int("self.scale", -3, 3)
    fn = lambda a, k=0: 10 * a + k
    F = Leaf("F", lambda: fn, valueType=object)
    X = Leaf("x", lambda: xv, valueType=int)
    lazy = DelayedArgument({"scale"}, lambda context: context.scale * 2, _internal=True)
    context = LazilyEvaluable.makeContext(scale=scale)
    cases = {
        "positional-lazy-operand": (X + lazy, xv + scale * 2),
        "call-with-lazy-positional": (F(lazy), 10 * (scale * 2)),
        "call-with-lazy-keyword": (F(X, k=lazy), 10 * xv + scale * 2),
    }
    for label, (node, want) in cases.items():
        try:
            ev = valueInContext(node, context)
            sample = Samplable.sampleAll([ev])
            got = sample[ev]
            ctx.check(f"{label}-evaluates-in-the-context-of-the-object", got == want)
        except NameError as e:
            ctx.check(f"{label}-evaluates-in-the-context-of-the-object", False, error="NameError")
    # container literals holding a random and a lazy element keep their Python type and contents
    import collections

    from scenic.core.distributions import toDistribution

    Pair = collections.namedtuple("Pair", ["first", "second"])
    containers = {"list": [X, lazy], "tuple": (X, lazy), "namedtuple": Pair(X, lazy)}
    for label, lit in containers.items():
        node = toDistribution(lit)
        ev = valueInContext(node, context)
        sample = Samplable.sampleAll([ev])
        got = sample[ev]
        ctx.check(f"{label}-literal-with-lazy-element-keeps-its-type", type(got) is type(lit), got=type(got).__name__)
        ctx.check(f"{label}-literal-with-lazy-element-keeps-its-contents", E.sym_and(len(got) == 2, got[0] == xv, got[1] == scale * 2))


# ------------------------------------------------------------------ (c) support intervals
def h_support(kind):
    def h(ctx):
        import scenic.core.distributions as D
        from scenic.core import geometry as G
        from scenic.core.vectors import Vector

        M.bind(ctx)
        Leaf = leaf_class()

        def leaf(n):
            if kind in ("range", "discrete-range"):
                # unionOfSupports tests `None in (bounds...)`, which realises symbolic bounds: use a few concrete supports
                lo, hi = ctx.choice(n + ".support", [(-3.0, 1.5), (0.0, 0.0), (2.0, 7.0), (-8.0, -2.5)])
            else:
                lo, hi = ctx.real(n + ".low", -10, 10), ctx.real(n + ".high", -10, 10)
            ctx.assume(lo <= hi)
            v = ctx.real(n + ".value")
            ctx.assume(E.sym_and(lo <= v, v <= hi))
            return Leaf(n, None, (lo, hi)), v, (lo, hi)

        A, a, (al, ah) = leaf("a")
        B, b, (bl, bh) = leaf("b")
        if kind in ("div", "rdiv"):
            ctx.assume(E.sym_or(bl > 0.01, True))
        nodes = {
            "add": (lambda: A + B, lambda: a + b), "radd": (lambda: 2.5 + A, lambda: 2.5 + a),
            "sub": (lambda: A - B, lambda: a - b), "rsub": (lambda: 2.5 - A, lambda: 2.5 - a),
            "mul": (lambda: A * B, lambda: a * b), "rmul": (lambda: -1.5 * A, lambda: -1.5 * a),
            "div": (lambda: A / B, lambda: a / b), "rdiv": (lambda: 3.0 / B, lambda: 3.0 / b),
            "neg": (lambda: -A, lambda: -a), "abs": (lambda: abs(A), lambda: M.real_abs(a)),
            "range": (lambda: D.Range(A, B), None), "discrete-range": (lambda: D.DiscreteRange(A, B), None),
            "options": (lambda: D.Options([A, B]), None),
            "hypot": (lambda: G.hypot(A, B), lambda: M.real_hypot(ctx, a, b)),
            "max": (lambda: G.max(A, B), lambda: M.real_max(a, b)), "min": (lambda: G.min(A, B), lambda: M.real_min(a, b)),
            "vector-norm": (lambda: Vector(A, B, 0).norm(), lambda: M.real_hypot(ctx, a, b, 0)),
        }
        build, value = nodes[kind]
        if kind in ("div", "rdiv"):
            ctx.assume(E.sym_or(b > 0.001, b < -0.001))
        node = build()
        lo, hi = D.supportInterval(node)
        if kind == "range":
            v = ctx.real("drawn")
            ctx.assume(E.sym_and(a <= v, v <= b))
        elif kind == "discrete-range":
            v = ctx.real("drawn")
            ctx.assume(E.sym_and(a <= v, v <= b))
        elif kind == "options":
            v = E.sym_ite(ctx.bool("first"), a, b)
        else:
            v = value()
        if lo is not None:
            ctx.check("value-not-below-reported-lower-bound", lo <= v, robust=lo - v > 0.001, node=kind)
        if hi is not None:
            ctx.check("value-not-above-reported-upper-bound", v <= hi, robust=v - hi > 0.001, node=kind)
        if lo is not None and hi is not None:
            ctx.check("reported-interval-is-not-inverted", lo <= hi, robust=lo - hi > 0.001, node=kind)
        if lo is None and hi is None:
            ctx.check("no-bounds-reported", True)

    return h


def obligations(tier, seed):
    import scenic.core.distributions as D
    from scenic.core import geometry as G
    from scenic.core.vectors import Vector

    enc = [D.Samplable.sampleAll, D.Samplable.sample, D.OperatorDistribution.sampleGiven, D.FunctionDistribution.sampleGiven,
           D.TupleDistribution.sampleGiven, D.AttributeDistribution.sampleGiven, D.makeOperatorHandler, D.toDistribution,
           D.distributionFunction]
    o = dict(patches=M.math_patches(), total_timeout=300.0, vc_timeout=20.0)
    obs = []
    for name in expression_corpus():
        integer = name in ("round-floordiv-mod", "float-constants-on-integer-values")
        obs.append(Obligation(f"forest[{name}]", h_forest(name, integer), f"lifted expression '{name}' == plain Python on samples",
                              {"leaves": 3, "leaf values": "symbolic in [-4,4]"}, enc, ["leaf distributions with harness-supplied symbolic samples"], opts=o))
    import os

    for name, (src, integer) in generated_expressions(seed, int(os.environ.get("C05_GENERATED", "8" if tier == "quick" else "80"))).items():
        obs.append(Obligation(f"forest[{name}]", h_forest(name, integer, src), f"lifted {src} == plain Python on samples (values and types)",
                              {"leaves": 3, "leaf values": "symbolic in [-4,4]"}, enc, ["leaf distributions with harness-supplied symbolic samples"], opts=o))
    obs.append(Obligation("lazy-operands", h_lazy_operands, "operator/call nodes with DelayedArgument operands (positional and keyword)",
                          {}, [D.OperatorDistribution.evaluateInner, D.OperatorDistribution.sampleGiven], [], opts=o))
    kinds = ["add", "radd", "sub", "rsub", "mul", "rmul", "div", "rdiv", "neg", "abs", "range", "discrete-range", "options",
             "hypot", "max", "min", "vector-norm"]
    for k in kinds:
        obs.append(Obligation(f"support[{k}]", h_support(k), f"supportInterval of '{k}' node contains every value",
                              {"operand supports": "any [l,h] in [-10,10]", "values": "any inside"},
                              [D.OperatorDistribution.supportInterval, D.FunctionDistribution.supportInterval, D.monotonicDistributionFunction,
                               D.Range.supportInterval, D.DiscreteRange.supportInterval, D.MultiplexerDistribution.supportInterval],
                              M.MATH_MODELS[:1], opts=o))
    return obs
