"""C11 - temporal requirements accept exactly the traces satisfying the formula."""
import builtins
import itertools
import random

from symx import engine as E
from symx.runner import Obligation

PROPERTY = "C11"
PRELOAD = ["scenic", "scenic.core.simulators", "scenic.syntax.translator", "rv_ltl"]
LEVEL = "other"
EXPLANATION = (
    "Concrete Scenic programs (formula text from a small grammar; top level, setup block, dynamically "
    "executed `require` in a compose block) are compiled by the real front end; scene generation and "
    "DummySimulator.simulate then run under CrossHair with every per-step truth value of every atom a "
    "symbolic Boolean.  rv_ltl, PropositionMonitor, the requirement closures, DynamicScenario._step/_stop "
    "and Simulation._run are traced through.  On each path z3 decides  accepted <=> FLTL(formula, trace) "
    "for a finite-trace evaluator with strong next/until written from the reference; entries the run "
    "never looked at stay unconstrained, so an early rejection is checked against every continuation. "
    "For Boolean tables the symbolic execution degenerates into solver-guided enumeration with "
    "don't-care merging; this is stated, not hidden."
)
MANIFEST_ENTRY = {
    "category": "other",
    "text": "Bounded symbolic checking through the real pipeline (parser, compiler, rv_ltl monitors, scenario stepping): for each formula of the bounded grammar and every truth-value trace of its atoms up to the stated length, acceptance of generate+simulate equals the finite-trace semantics (strong next/until), including early rejection soundness over all continuations of the bounded length.",
    "note": "Trusted: CrossHair, z3, the FLTL evaluator transcribed from the reference, DummySimulator as the simulator. Bounds: formula depth <= 2 (quick) / 3 (thorough, sampled), <= 2-3 atoms, traces of <= 4-6 steps. Outside: longer traces, atoms with side effects, real simulators.",
}
ASSUMPTIONS = [
    "atoms are pure reads of a step-indexed truth table (builtins hook called from the program text)",
    "trace = time steps 0..maxSteps of the simulation (top-level / setup requirements)",
]

TABLE = {}  # (atom, time) -> symbolic/concrete bool, created lazily per path
CTX = [None]
READS = []


def _atom(i):
    import scenic.syntax.veneer as veneer

    sim = veneer.currentSimulation
    t = sim.currentTime if sim is not None else 0
    READS.append((i, t))
    return _cell(i, t)


def _cell(i, t):
    key = (i, t)
    if key not in TABLE:
        TABLE[key] = CTX[0].bool(f"a{i}_t{t}")
    return TABLE[key]


builtins._symx_atom = _atom


# ------------------------------------------------------------------ formulas
def text(f):
    k = f[0]
    if k == "flat":
        return "unparenthesised: " + flat(f[1]).replace("_symx_atom", "A")
    if k == "atom":
        return f"_symx_atom({f[1]})"
    if k in ("not", "always", "eventually", "next"):
        return f"({k} {text(f[1])})"
    return f"({text(f[1])} {k} {text(f[2])})"


def fltl(f, pos, L, cell):
    """Finite-trace semantics with strong next / strong until over positions pos..L-1."""
    k = f[0]
    if k == "atom":
        return cell(f[1], pos)
    if k == "not":
        return E.sym_not(fltl(f[1], pos, L, cell))
    if k == "and":
        return E.sym_and(fltl(f[1], pos, L, cell), fltl(f[2], pos, L, cell))
    if k == "or":
        return E.sym_or(fltl(f[1], pos, L, cell), fltl(f[2], pos, L, cell))
    if k == "implies":
        return E.sym_or(E.sym_not(fltl(f[1], pos, L, cell)), fltl(f[2], pos, L, cell))
    if k == "next":
        return fltl(f[1], pos + 1, L, cell) if pos + 1 < L else False
    if k == "always":
        return E.sym_and(*[fltl(f[1], j, L, cell) for j in range(pos, L)])
    if k == "eventually":
        return E.sym_or(*[fltl(f[1], j, L, cell) for j in range(pos, L)])
    if k == "until":
        alts = []
        for j in range(pos, L):
            alts.append(E.sym_and(fltl(f[2], j, L, cell), *[fltl(f[1], i, L, cell) for i in range(pos, j)]))
        return E.sym_or(*alts)
    raise ValueError(k)


def flat(f):
    """Infix text WITHOUT parentheses (precedence is then decided by the grammar)."""
    k = f[0]
    if k == "atom":
        return f"_symx_atom({f[1]})"
    if k in ("not", "always", "eventually", "next"):
        return f"{k} {flat(f[1])}"
    return f"{flat(f[1])} {k} {flat(f[2])}"


class RefSyntaxError(Exception):
    pass


def ref_parse(txt):
    """Reference reading of an unparenthesised temporal formula, from the precedence stated by the
    reference examples and the grammar's own comments (loosest to tightest):
        until  <  always/eventually/next (prefix: scope extends right up to an `until`)  <  implies
               <  or  <  and  <  not  <  atoms / parenthesised groups
    `until` and `implies` are non-associative; a prefix operator may start the right operand of
    implies / or / and / not."""
    toks = txt.replace("(", " ( ").replace(")", " ) ").split()
    # re-join atom calls "_symx_atom ( 0 )"
    out, i = [], 0
    while i < len(toks):
        if toks[i] == "_symx_atom":
            out.append(("atom", int(toks[i + 2])))
            i += 4
        else:
            out.append(toks[i])
            i += 1
    toks = out
    pos = [0]

    def peek():
        return toks[pos[0]] if pos[0] < len(toks) else None

    def eat(t=None):
        x = peek()
        if t is not None and x != t:
            raise RefSyntaxError(f"expected {t} got {x}")
        pos[0] += 1
        return x

    PRE = ("next", "eventually", "always")

    def until_expr():
        a = above_until()
        if peek() == "until":
            eat()
            b = above_until()
            if peek() == "until":
                raise RefSyntaxError("until is not associative")
            return ("until", a, b)
        return a

    def above_until():
        if peek() in PRE:
            return prefix()
        return implication()

    def prefix():
        op = eat()
        return (op, above_until())

    def implication():
        a = disj()
        if peek() == "implies":
            eat()
            b = prefix() if peek() in PRE else disj()
            if peek() == "implies":
                raise RefSyntaxError("implies is not associative")
            return ("implies", a, b)
        return a

    def disj():
        a = conj()
        while peek() == "or":
            eat()
            b = prefix() if peek() in PRE else conj()
            a = ("or", a, b)
        return a

    def conj():
        a = inv()
        while peek() == "and":
            eat()
            b = prefix() if peek() in PRE else inv()
            a = ("and", a, b)
        return a

    def inv():
        if peek() == "not":
            eat()
            b = prefix() if peek() in PRE else inv()
            return ("not", b)
        if peek() == "(":
            eat()
            a = until_expr()
            eat(")")
            return a
        x = eat()
        if isinstance(x, tuple):
            return x
        raise RefSyntaxError(f"unexpected {x}")

    r = until_expr()
    if peek() is not None:
        raise RefSyntaxError(f"trailing {peek()}")
    return r


UN = ["not", "always", "eventually", "next"]
BIN = ["and", "or", "implies", "until"]


def formulas(depth, atoms):
    level = [("atom", i) for i in range(atoms)]
    allf = list(level)
    for _ in range(depth):
        new = []
        for u in UN:
            for f in allf:
                new.append((u, f))
        for b in BIN:
            for f in allf:
                for g in allf:
                    new.append((b, f, g))
        allf = allf + [f for f in new if f not in allf]
    return allf


def depth_of(f):
    if f[0] == "flat":
        return depth_of(f[1])
    return 0 if f[0] == "atom" else 1 + max(depth_of(x) for x in f[1:])


def is_temporal(f):
    return f[0] in ("always", "eventually", "next", "until") or any(is_temporal(x) for x in f[1:] if isinstance(x, tuple))


# ------------------------------------------------------------------ programs
def program(f, where):
    req = f"require {text(f)}"
    if f[0] == "flat":
        req = f"require {flat(f[1])}"
    if where == "top":
        return f"ego = new Object\n{req}\n"
    if where == "setup":
        return ("scenario Main():\n    setup:\n        ego = new Object\n        " + req + "\n")
    if where.startswith("compose"):
        # the requirement is executed dynamically in the compose block at step `delay`
        delay = int(where[7:] or 0)
        return ("scenario Main():\n    setup:\n        ego = new Object\n    compose:\n"
                + "        wait\n" * delay +
                "        " + req + "\n        while True:\n            wait\n")
    if where == "sub":
        # requirement of a sub-scenario that ends (after 1 step) before the simulation does
        return ("scenario Main():\n    setup:\n        ego = new Object\n    compose:\n"
                "        do Sub()\n        while True:\n            wait\n"
                "scenario Sub():\n    setup:\n        " + req + "\n        terminate after 1 steps\n")
    raise ValueError(where)


_COMPILED = {}


class CompileFailure:
    def __init__(self, msg):
        self.msg = msg


def compiled(f, where):
    key = (f, where)
    if key not in _COMPILED:
        import scenic

        try:
            _COMPILED[key] = scenic.scenarioFromString(program(f, where), mode2D=True)
        except Exception as e:  # remembered: reported by the harness as a violation, not a crash
            _COMPILED[key] = CompileFailure(f"{type(e).__name__}: {e}"[:200])
    return _COMPILED[key]


def run_once(scenario, steps):
    """generate + simulate; returns 'accepted' / 'rejected-at-sampling' / 'rejected'."""
    from scenic.core.distributions import RejectionException
    from scenic.core.simulators import DummySimulator

    try:
        scene, _ = scenario.generate(maxIterations=1, verbosity=0)
    except RejectionException:
        return "rejected-at-sampling", None
    sim = DummySimulator().simulate(scene, maxSteps=steps, maxIterations=1, verbosity=0)
    if sim is None:
        return "rejected", None
    return "accepted", sim


def harness_for(f, where, steps):
    def h(ctx):
        TABLE.clear()
        del READS[:]
        CTX[0] = ctx
        scenario = compiled(f, where)
        if isinstance(scenario, CompileFailure):
            ctx.check("fully-parenthesised-formula-accepted-by-front-end", False, formula=text(f), where=where,
                      error=scenario.msg)
            return
        try:
            outcome, sim = run_once(scenario, steps)
        except Exception as e:  # real code raised something that is neither acceptance nor rejection
            ctx.check("no-internal-error", False, formula=text(f), where=where, error=f"{type(e).__name__}: {e}"[:200])
            return
        L = steps + 1  # time steps 0..maxSteps
        start = int(where[7:] or 0) if where.startswith("compose") else 0
        if where == "sub":
            L = 2  # Sub runs during time steps 0 and 1 only
        if sim is not None:
            ctx.check("trajectory-has-one-state-per-step", len(sim.result.trajectory) == steps + 1)
        sem = ref_parse(flat(f[1])) if f[0] == "flat" else f
        want = fltl(sem, start, L, _cell)
        if outcome == "accepted":
            ctx.check("accepted-only-if-formula-holds", want, formula=text(f), where=where, steps=steps)
        else:
            ctx.check("rejected-only-if-formula-fails-on-every-continuation", E.sym_not(want),
                      formula=text(f), where=where, steps=steps, outcome=outcome)

    return h


def warm(f, where, steps):
    def s():
        # concrete warm-up runs (fill lazy caches so that symbolic runs are deterministic)
        class C:
            def bool(self, name):
                return random.Random(name).random() < 0.5

        CTX[0] = C()
        sc = compiled(f, where)
        if isinstance(sc, CompileFailure):
            return
        for _ in range(2):
            TABLE.clear()
            try:
                run_once(sc, steps)
            except Exception:
                pass  # reported by the symbolic run as 'no-internal-error'
        TABLE.clear()

    return s


def obligations(tier, seed):
    import scenic.core.dynamics.scenarios as ds
    import scenic.core.propositions as pr
    import scenic.core.requirements as rq
    import scenic.core.simulators as sm
    from scenic.syntax import compiler

    enc = [pr.PropositionMonitor.update, rq.MonitorRequirement.value, rq.BoundRequirement.value,
           rq.DynamicMonitorRequirement.value, rq.CompiledRequirement.falsifiedByInner,
           ds.DynamicScenario._step, ds.DynamicScenario._stop, ds.DynamicScenario._start,
           sm.Simulation._run, sm.Simulation.__init__, compiler.PropositionTransformer]
    rnd = random.Random(4200 + seed)
    d1 = [f for f in formulas(1, 2) if is_temporal(f)]
    d2 = [f for f in formulas(2, 2) if depth_of(f) == 2 and is_temporal(f)]
    nt1 = [f for f in formulas(1, 2) if not is_temporal(f) and depth_of(f) == 1]
    nt2 = [f for f in formulas(2, 2) if not is_temporal(f) and depth_of(f) == 2]
    if tier == "quick":
        chosen = [(f, "top", 3) for f in d1] + [(f, "top", 3) for f in rnd.sample(d2, 14)]
        chosen += [(f, "setup", 2) for f in rnd.sample(d1, 3)] + [(f, "compose", 2) for f in rnd.sample(d1, 3)]
        chosen += [(f, "compose1", 3) for f in rnd.sample(d1, 3)] + [(f, "sub", 3) for f in rnd.sample(d1, 3)]
        chosen += [(f, "compose1", 2) for f in nt1] + [(f, "top", 1) for f in rnd.sample(nt2, 3)]
    else:
        chosen = [(f, "top", 4) for f in d1] + [(f, "top", 3) for f in rnd.sample(d2, 150)]
        chosen += [(f, "setup", 3) for f in d1] + [(f, "compose", 3) for f in d1] + [(f, "compose2", 4) for f in d1]
        chosen += [(f, "sub", 3) for f in d1]
        chosen += [(f, w, 2) for f in rnd.sample(d2, 40) for w in ("setup", "compose", "sub")]
        chosen += [(f, "compose1", 2) for f in nt1 + rnd.sample(nt2, 30)] + [(f, "top", 1) for f in nt1 + rnd.sample(nt2, 20)]
    # every unary operator applied to every unary operator (e.g. `not next A`, `always not A`)
    chosen += [((u1, (u2, ("atom", 0))), "top", 3) for u1 in UN for u2 in UN]
    chosen += [((u1, (u2, (u3, ("atom", 0)))), "top", 2) for u1 in UN for u2 in UN for u3 in UN]
    # `until` evaluated from later positions and with operands whose verdict is still pending
    A0, A1 = ("atom", 0), ("atom", 1)
    U = ("until", A0, A1)
    nested_until = [(u, U) for u in UN] + [("next", ("next", U)), ("always", ("next", U)), ("eventually", ("not", U))]
    nested_until += [("until", A0, (t, A1)) for t in ("always", "eventually", "next")]
    nested_until += [("until", (t, A0), A1) for t in ("always", "eventually", "next")]
    nested_until += [("until", A0, ("until", A1, A0)), ("until", ("until", A0, A1), A0), ("until", A0, ("implies", A1, ("eventually", A0))),
                     ("until", A0, ("and", A1, ("next", A0))), ("until", ("or", A0, ("next", A1)), A1),
                     ("and", ("next", U), ("eventually", A0)), ("implies", A1, ("next", U))]
    chosen += [(f, "top", 3 if tier == "quick" else 4) for f in nested_until]
    chosen += [(f, w, 3) for f in nested_until[:4] for w in ("compose1", "sub")]
    # precedence: unparenthesised texts against the reference reading
    d3 = [f for f in formulas(2, 2) if depth_of(f) == 2 and is_temporal(f)]
    flats = []
    fixed = [("until", ("eventually", ("atom", 0)), ("atom", 1)), ("implies", ("always", ("atom", 0)), ("atom", 1)),
             ("and", ("atom", 0), ("always", ("atom", 1))), ("or", ("next", ("atom", 0)), ("atom", 1)),
             ("until", ("atom", 0), ("eventually", ("atom", 1))), ("not", ("next", ("atom", 0))),
             ("until", ("always", ("atom", 0)), ("atom", 1)), ("until", ("next", ("atom", 0)), ("atom", 1)),
             ("implies", ("atom", 0), ("next", ("atom", 1))), ("or", ("atom", 0), ("until", ("atom", 1), ("atom", 0))),
             ("and", ("not", ("atom", 0)), ("eventually", ("atom", 1))), ("until", ("not", ("atom", 0)), ("atom", 1))]
    pool = fixed + rnd.sample(d3, 12 if tier == "quick" else 120)
    for f in pool:
        try:
            ref_parse(flat(f))
        except RefSyntaxError:
            continue
        flats.append((("flat", f), "top", 3))
    chosen += flats
    obs = []
    seen = set()
    for f, where, steps in chosen:
        oid = f"{where}[{text(f).replace('_symx_atom', 'A')}]/{steps}"
        if f[0] == "flat" and not is_temporal(ref_parse(flat(f[1]))):
            continue
        if oid in seen:
            continue
        seen.add(oid)
        obs.append(Obligation(
            oid, harness_for(f, where, steps), f"require {text(f)} at {where}, maxSteps={steps}",
            {"atoms": 2, "trace_steps": steps + 1, "formula_depth": depth_of(f)}, enc,
            ["DummySimulator as simulator", "atoms read a step-indexed symbolic truth table via a builtins hook"],
            opts=dict(total_timeout=(200.0 if tier == "quick" else 900.0), per_path_timeout=(30.0 if tier == "quick" else 90.0)), setup=warm(f, where, steps)))
    return obs
