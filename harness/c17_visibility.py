"""C17 - visibility respects the view volume and occlusion."""
import math

from symx import engine as E
from symx import models as M
from symx.runner import Obligation

PROPERTY = "C17"
PRELOAD = ["scenic.core.visibility", "scenic.core.object_types", "scenic.core.vectors"]
LEVEL = "other"
EXPLANATION = (
    "The point branch of scenic.core.visibility.canSee is executed symbolically with the viewer's position, "
    "an arbitrary rotation (3x3 orthonormal matrix of reals) as its orientation, the visible distance, the "
    "view angles and the target as symbolic reals; numpy is replaced by a pure-Python stand-in whose "
    "arctan2/arcsin are uninterpreted functions with logged arguments.  z3 decides that the direction whose "
    "azimuth/altitude are tested is R^-1 (target - camera) / |target - camera| (the target in the viewer's "
    "OWN frame, measured from the camera position) and that the verdict is exactly 'within distance and "
    "within both half angles'.  Occlusion: ray-hit lists of occluders are symbolic data; adding occluders "
    "never turns not-visible into visible and the distance pre-filter of occluders is sound.  The viewer "
    "wrappers pass camera position = position + R*cameraOffset, their own orientation, angles and "
    "occluders unchanged."
)
MANIFEST_ENTRY = {
    "category": "other",
    "text": "Bounded symbolic checking (reals, arbitrary 3D rotation) of the point-target visibility test: frame and origin of the tested direction, exact view-volume verdict without occluders, monotonicity in the occluder set and soundness of the occluder pre-filter; plus the camera-offset / orientation plumbing of the Point/OrientedPoint/Object wrappers.",
    "note": "Trusted: CrossHair, z3 (NRA), rotation = orthonormal matrix model of scipy Rotation, arctan2/arcsin uninterpreted (principal values not modelled), hits of an occluder are at least as far as the occluder. Outside: object targets (vectorised ray casting through numpy/trimesh) - 'an object wholly outside the view volume is never reported visible' is NOT claimed for objects.",
}
ASSUMPTIONS = ["floats are reals", M.SymRot.MODEL, M.NPShim.MODEL,
               "every ray hit on an occluder is at distance >= the occluder's distance from the camera"]


class SymOrientation:
    """Stand-in for scenic Orientation backed by a SymRot (only the methods canSee / offsetLocally use)."""

    def __init__(self, rot):
        self.r = rot

    def getRotation(self):
        return self.r

    @property
    def _inverseRotation(self):
        return self.r.inv()


def _vec(ctx, name):
    from scenic.core.vectors import Vector

    return Vector(ctx.real(name + ".x"), ctx.real(name + ".y"), ctx.real(name + ".z"))


class Occluder:
    def __init__(self, ctx, name, nhits):
        self.name = name
        self.dist = ctx.real(name + ".distance", 0, None)
        self.hits = [_vec(ctx, f"{name}.hit{k}") for k in range(nhits)]
        self.queried = 0
        occ = self

        class _Ray:
            def intersects_location(self, ray_origins, ray_directions):
                occ.queried += 1
                rows = [M.PyVec(h.coordinates) for h in occ.hits]

                class Locs(list):
                    def __getitem__(s, key):
                        if isinstance(key, tuple):  # locs[i, :]
                            return list.__getitem__(s, key[0])
                        return list.__getitem__(s, key)

                return (Locs(rows), [0] * len(rows), [0] * len(rows))

        class _Mesh:
            ray = _Ray()

        class _Space:
            mesh = _Mesh()

        self.occupiedSpace = _Space()

    def distanceTo(self, point):
        return self.dist


def call_canSee(ctx, position, orientation, D, va, target, occluders):
    import scenic.core.visibility as V

    shim = M.NPShim(ctx)
    saved = V.np
    V.np = shim
    try:
        got = V.canSee(position=position, orientation=orientation, visibleDistance=D, viewAngles=va,
                       rayCount=(3, 3), rayDensity=None, distanceScaling=False, target=target,
                       occludingObjects=occluders)
    finally:
        V.np = saved
    return (True if got else False), shim


def _setup(ctx, oriented=True):
    M.bind(ctx)
    p = _vec(ctx, "camera")
    t = _vec(ctx, "target")
    D = ctx.real("visibleDistance", 0, None)
    va = (ctx.real("viewAngleH", 0, 2 * math.pi), ctx.real("viewAngleV", 0, math.pi))
    rot = M.SymRot.about_axis(ctx, oriented, "R") if oriented else None
    dx, dy, dz = t.x - p.x, t.y - p.y, t.z - p.z
    ctx.assume(dx * dx + dy * dy + dz * dz > 0.01)  # target not at the camera itself
    return p, t, D, va, rot, (dx, dy, dz)


def h_point_frame(oriented):
    def h(ctx):
        p, t, D, va, rot, d = _setup(ctx, oriented)
        ori = SymOrientation(rot) if oriented else None
        got, shim = call_canSee(ctx, p, ori, D, va, t, [])
        n2 = d[0] * d[0] + d[1] * d[1] + d[2] * d[2]
        within = n2 <= D * D
        at = [c for c in shim.calls if c[0] == "arctan2"]
        asn = [c for c in shim.calls if c[0] == "arcsin"]
        if not at and not asn:
            ctx.check("not-visible-without-angle-test-only-when-beyond-visible-distance", E.sym_and(not got, E.sym_not(within)))
            return
        ctx.check("one-azimuth-and-one-altitude-evaluation", len(at) == 1 and len(asn) == 1)
        # reference direction in the viewer's own frame, from the camera position
        if oriented:
            m = rot.m
            v = [sum(m[k][i] * d[k] for k in range(3)) for i in range(3)]  # R^T (t - p)
        else:
            v = list(d)
        norms = [c for c in shim.calls if c[0] == "norm"]
        ctx.check("direction-normalised-once", len(norms) == 1)
        h = norms[0][2]
        tol = 1e-4
        # (1) the normalisation constant is the true camera-target distance; (2) the un-normalised
        # direction is target minus camera expressed in the viewer's frame
        ctx.check("direction-normalised-by-the-camera-target-distance", h * h == n2,
                  robust=E.sym_or(h * h - n2 > tol, n2 - h * h > tol))
        y, x, a = at[0][1], at[0][2], asn[0][1]
        for lab, lhs, rhs in (("azimuth-y", y * h, v[1]), ("azimuth-x", x * h, v[0]), ("altitude-z", a * h, v[2])):
            ctx.check(f"tested-direction-is-target-minus-camera-in-viewer-frame[{lab}]", lhs == rhs,
                      robust=E.sym_or(lhs - rhs > tol, rhs - lhs > tol))
        az_raw, alt = at[0][3], asn[0][2]
        az = shim.mod(az_raw - math.pi / 2 + math.pi, 2 * math.pi) - math.pi
        inside = E.sym_and(within, -va[0] / 2 <= az, az <= va[0] / 2, -va[1] / 2 <= alt, alt <= va[1] / 2)
        ctx.check("visible-iff-within-distance-and-both-half-angles", inside if got else E.sym_not(inside))

    return h


def h_occlusion(ctx):
    from scenic.core.vectors import Vector

    M.bind(ctx)
    # concrete viewer and target (the occlusion logic compares distances only); symbolic visible
    # distance, occluder distances and hit points
    p, t = Vector(1, 2, 3), Vector(1, 7, 3)
    D = ctx.real("visibleDistance", 0, None)
    va = (2 * math.pi, math.pi)
    d = (0.0, 5.0, 0.0)
    r0, _ = call_canSee(ctx, p, None, D, va, t, [])
    occs = [Occluder(ctx, "occA", 1), Occluder(ctx, "occB", 1)]
    # geometric axiom: a hit on an occluder is no closer than the occluder itself
    for o in occs:
        for hpt in o.hits:
            hx, hy, hz = hpt.x - p.x, hpt.y - p.y, hpt.z - p.z
            ctx.assume(hx * hx + hy * hy + hz * hz >= o.dist * o.dist)
    r1, _ = call_canSee(ctx, p, None, D, va, t, occs)
    ctx.check("adding-occluders-never-makes-a-point-visible", r0 or not r1)
    ctx.check("visible-without-occluders-iff-within-distance", (D >= 5) if r0 else (D < 5))
    blocked = False
    for o in occs:
        for hpt in o.hits:
            hx, hy, hz = hpt.x - p.x, hpt.y - p.y, hpt.z - p.z
            blocked = E.sym_or(blocked, hx * hx + hy * hy + hz * hz <= 25)
    if r0:
        ctx.check("visible-with-occluders-iff-no-hit-at-or-before-the-target", E.sym_not(blocked) if r1 else blocked)


def h_wrappers(kind):
    def h(ctx):
        import scenic.core.object_types as OT
        from scenic.core.vectors import Vector

        M.bind(ctx)
        rot = M.SymRot(ctx, "R", constrain=False)
        captured = {}

        def fake_canSee(**kw):
            captured.update(kw)
            return True

        cls = {"Point": OT.Point, "OrientedPoint": OT.OrientedPoint, "Object": OT.Object}[kind]

        class Stub:
            pass

        s = Stub()
        s.position = _vec(ctx, "pos")
        s.orientation = SymOrientation(rot)
        s.cameraOffset = _vec(ctx, "cameraOffset")
        s.visibleDistance = ctx.real("visibleDistance", 0, None)
        s.viewAngles = (ctx.real("vaH", 0, None), ctx.real("vaV", 0, None))
        s.viewRayCount, s.viewRayDensity, s.viewRayDistanceScaling = None, 5, False
        target = Vector(1, 2, 3)
        occ = ("o1", "o2")
        saved = OT.canSee
        OT.canSee = fake_canSee
        try:
            fn = cls.canSee.__wrapped__
            fn(s, target, occludingObjects=occ)
        finally:
            OT.canSee = saved
        pos = captured["position"]
        if kind == "Object":
            off = rot.mat_vec(s.cameraOffset.coordinates)
            want = [s.position.x + off[0], s.position.y + off[1], s.position.z + off[2]]
        else:
            want = list(s.position.coordinates)
        ctx.check("camera-position-is-position-plus-rotated-camera-offset",
                  E.sym_and(pos.x == want[0], pos.y == want[1], pos.z == want[2]))
        ctx.check("orientation-passed-unchanged", captured["orientation"] is (None if kind == "Point" else s.orientation))
        if kind == "Point":
            ctx.check("point-sees-in-all-directions", captured["viewAngles"] == (math.tau, math.pi))
        else:
            ctx.check("view-angles-passed-unchanged", captured["viewAngles"] is s.viewAngles)
        ctx.check("distance-target-occluders-passed-unchanged",
                  captured["visibleDistance"] is s.visibleDistance and captured["target"] is target
                  and tuple(captured["occludingObjects"]) == occ)

    return h


def h_cansee_operator(target_kind):
    """`X can see Y`: the occluders handed to X.canSee are exactly the occluding objects other than X and Y,
    whatever kind of target Y is (bare vector, Point, Object)."""

    def h(ctx):
        import scenic.syntax.veneer as V
        from scenic.core.object_types import Object, Point
        from scenic.core.vectors import Vector

        calls = []

        class Viewer(Point):
            def canSee(self, other, occludingObjects=tuple(), debug=False):
                calls.append((other, tuple(occludingObjects)))
                return True

        X = Viewer._with(position=Vector(0, 0, 0))

        class Obj:
            def __init__(self, name):
                self.name = name
                self.occluding = ctx.flag(name + ".occluding")

        objs = [Obj("o1"), Obj("o2"), Obj("o3")]
        if target_kind == "vector":
            Y = Vector(3, 4, 0)
        elif target_kind == "tuple":
            Y = (3, 4, 0)
        else:
            Y = Point._with(position=Vector(3, 4, 0))
        listed = list(objs)
        if target_kind == "listed-point":
            listed.append(Y)  # the target itself is among the scenario's objects

        class Scn:
            _objects = listed

        saved = V.currentScenario
        V.currentScenario = Scn()
        try:
            r = V.CanSee(X, Y)
        finally:
            V.currentScenario = saved
        ctx.check("operator-evaluates-the-viewer's-canSee-once", len(calls) == 1 and r is True, calls=len(calls))
        if len(calls) == 1:
            want = tuple(o for o in listed if getattr(o, "occluding", False) and o is not X and o is not Y)
            got = calls[0][1]
            ctx.check("occluders-are-exactly-the-occluding-objects-other-than-viewer-and-target",
                      len(got) == len(want) and all(a is b for a, b in zip(got, want)),
                      got=[getattr(o, "name", "?") for o in got], want=[getattr(o, "name", "?") for o in want])

    return h


def sys_replay_frame(cex):
    """Public-API confirmation: a viewer away from the origin, turned 90 degrees, looking at a point straight ahead."""
    import scenic

    sc = scenic.scenarioFromString(
        "ego = new Object at (10, 0, 0), facing 90 deg, with viewAngles (60 deg, 60 deg), with visibleDistance 20\n"
        "p = new Point at (5, 0, 0)\n")
    scene, _ = sc.generate(maxIterations=1)
    ego = scene.egoObject
    pt = [o for o in scene.dynamicScenario._instances if o is not ego][0] if False else None
    from scenic.core.vectors import Vector

    target = Vector(5, 0, 0)  # straight ahead of a viewer at (10,0,0) heading 90 deg (facing -x)
    sees = ego.canSee(target)
    inregion = ego.visibleRegion.containsPoint(target)
    return (not sees) and inregion, f"viewer at (10,0,0) facing 90deg: canSee((5,0,0))={sees}, visibleRegion contains it={inregion}"


def g_object_targets():
    """Concrete auxiliary check of the object branch of canSee (vectorised numpy + trimesh ray casting, outside the
    reach of symbolic execution) on configurations with an analytic answer: a long wall abeam of the viewer whose
    in-angle part starts at d / sin(alpha/2); boxes ahead / behind / beyond range; an occluder between or beside."""
    import math

    from scenic.core.object_types import Object
    from scenic.core.vectors import Orientation, Vector

    bad, cases = [], 0

    def local(P, yaw, x, y, z=0):
        c, s = math.cos(yaw), math.sin(yaw)
        return Vector(P.x + c * x - s * y, P.y + s * x + c * y, P.z + z)

    def obj(pos, yaw, w, l, h, **kw):
        return Object._with(position=pos, yaw=yaw, width=w, length=l, height=h, **kw)

    def expect(tag, got, want):
        nonlocal cases
        cases += 1
        if bool(got) != want and len(bad) < 6:
            bad.append(f"{tag}: canSee = {bool(got)}, expected {want}")

    for P, yaw in ((Vector(100, 50, 0), math.radians(37)), (Vector(-3, 7, 1), math.radians(200)), (Vector(0, 0, 0), 0.0)):
        for alpha in (math.radians(60), math.radians(90)):
            for d in (5.0, 3.0):
                start = d / math.sin(alpha / 2)  # distance at which the wall enters the view angles
                for factor, want in ((0.85, False), (1.4, True)):
                    D = start * factor
                    if D <= d + 0.2:  # keep the closest point of the wall within the visible distance
                        continue
                    ego = obj(P, yaw, 1, 1, 1, viewAngles=(alpha, math.radians(60)), visibleDistance=D)
                    wall = obj(local(P, yaw, d + 0.5, 19), yaw, 1, 42, 4)
                    expect(f"wall {d} m abeam, view angle {math.degrees(alpha):.0f}, visibleDistance {D:.2f} (in-angle part from {start:.2f})",
                           ego.canSee(wall, occludingObjects=()), want)
        ego = obj(P, yaw, 1, 1, 1, viewAngles=(math.radians(90), math.radians(60)), visibleDistance=20)
        ahead = obj(local(P, yaw, 0, 10), yaw, 2, 2, 2)
        behind = obj(local(P, yaw, 0, -10), yaw, 2, 2, 2)
        far = obj(local(P, yaw, 0, 30), yaw, 2, 2, 2)
        side = obj(local(P, yaw, 12, 2), yaw, 2, 2, 2)
        blocker = obj(local(P, yaw, 0, 5), yaw, 6, 0.5, 6)
        beside = obj(local(P, yaw, 8, 5), yaw, 2, 0.5, 6)
        expect("box 10 m ahead", ego.canSee(ahead, occludingObjects=()), True)
        expect("box 10 m behind", ego.canSee(behind, occludingObjects=()), False)
        expect("box 30 m ahead, visibleDistance 20", ego.canSee(far, occludingObjects=()), False)
        expect("box 80 degrees to the side, view angle 90", ego.canSee(side, occludingObjects=()), False)
        expect("box ahead behind a 6 x 6 screen", ego.canSee(ahead, occludingObjects=(blocker,)), False)
        expect("box ahead, screen off to the side", ego.canSee(ahead, occludingObjects=(beside,)), True)
    return (not bad, "; ".join(bad), cases)


def obligations(tier, seed):
    import scenic.core.object_types as OT
    import scenic.core.visibility as V

    o = dict(patches=M.math_patches(), total_timeout=300.0, vc_timeout=30.0, per_path_timeout=60.0)
    mm = M.MATH_MODELS + [M.SymRot.MODEL, M.NPShim.MODEL]
    obs = [
        *[Obligation(f"point-target[viewer-rotated-about-{ax}]", h_point_frame(ax), f"point branch of canSee, viewer rotated by any angle about its {ax} axis",
                     {"viewer": f"any position, any rotation about {ax}", "target": "any point"}, [V.canSee], mm, opts=o,
                     system_replay=sys_replay_frame if ax == "z" else None) for ax in ("z", "x", "y")],
        Obligation("point-target[unoriented-viewer]", h_point_frame(False), "point branch of canSee, Point viewer (no orientation)",
                   {}, [V.canSee], mm, opts=o),
        Obligation("occlusion-monotone", h_occlusion, "occluders only remove visibility; pre-filter sound",
                   {"occluders": 2, "hits": "1+1 symbolic hit points", "viewer/target": "concrete, 5 apart", "visibleDistance": "symbolic"}, [V.canSee], mm + ["trimesh ray query: symbolic hit lists"], opts=o),
    ]
    obs.append(Obligation("object-targets[ground]", None, "auxiliary concrete check of the ray-casting branch on configurations with an analytic answer (wall abeam, boxes ahead/behind/beyond range, occluder between/beside)",
                          {"viewers": 3, "view angles": 2}, [V.canSee], ["not solver-decided: the object branch is vectorised numpy + trimesh ray queries"], ground=g_object_targets))
    import scenic.syntax.veneer as VV

    for tk in ("vector", "tuple", "point"):
        obs.append(Obligation(f"can-see-operator[{tk}-target]", h_cansee_operator(tk), "`X can see Y` passes the right occluders",
                              {"objects": 3, "occluding flags": "symbolic"}, [VV.CanSee], []))
    for kind in ("Point", "OrientedPoint", "Object"):
        obs.append(Obligation(f"viewer-wrapper[{kind}]", h_wrappers(kind), f"{kind}.canSee arguments",
                              {}, [getattr(OT, kind).canSee], mm, opts=o))
    return obs
