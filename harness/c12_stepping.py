"""C12 - simulation steps run in the documented order and stop at the documented step."""
import itertools

from symx import engine as E
from symx.runner import Obligation
from harness import dyn_common as D

PROPERTY = "C12"
PRELOAD = ["scenic", "scenic.core.simulators", "scenic.syntax.translator", "rv_ltl"]
LEVEL = "other"
EXPLANATION = (
    "Programs of a core dynamic fragment (written in a mini-IR, rendered to Scenic text, compiled by the real "
    "front end) run through Simulator.simulate under CrossHair.  Compose blocks, monitors, behaviours, record "
    "expressions and a logging Simulation subclass (executeActions / step / getProperties / scheduleForAgents) "
    "append to one event log.  Durations (`for N steps/seconds`, `terminate after`, `wait for`, maxSteps) are "
    "symbolic integers (unbounded above: one path covers every value beyond the horizon), the agent schedule is "
    "a symbolic permutation, `until` / `terminate when` conditions read step-indexed symbolic truth tables.  An "
    "independent reference interpreter of the ten-step procedure of docs/reference/dynamic_scenarios.rst "
    "produces the expected log from the same symbolic inputs; equality of the logs, of the trajectory length, "
    "of the action log and of the termination step is decided on every path (the values are then concrete per "
    "path: the solver's role is path feasibility and covering unbounded durations)."
)
MANIFEST_ENTRY = {
    "category": "other",
    "text": "Bounded symbolic checking through the real simulation loop: for each program of the fixed corpus and of a seeded set generated from the grammar of the dynamic fragment (agents, sub-scenarios, monitors, records, every termination construct, durations in steps and seconds) and all values of its durations / schedule / condition tables within the horizon, the event log, trajectory, action log and termination step equal those of a reference interpreter of the documented ten-step procedure.",
    "note": "Trusted: CrossHair, z3, the reference interpreter, DummySimulation as simulator. Bounds: horizon maxSteps<=4, <=2 agents, nesting depth 2; durations symbolic and unbounded. Outside: real simulators, sensors, dynamic object creation.",
}
ASSUMPTIONS = ["DummySimulation physics (no drift)", "durations are integers >= 0; time step in {1/2, 1, 2}"]

B_LOOP = [("loop", [("log", "beh:%s"), ("take", "act:%s")])]


def beh(name):
    return [("loop", [("log", f"beh:{name}"), ("take", f"act:{name}")])]


def corpus():
    P = {}
    base = dict(agents=[("a0", "B0"), ("a1", "B1")], behaviors={"B0": beh("a0"), "B1": beh("a1")},
                monitor=[("loop", [("log", "monitor"), ("wait",)])], record=True,
                compose=[("loop", [("log", "compose"), ("wait",)])])
    P["full-step-order"] = dict(base, values={}, conds=[])
    P["terminate-when"] = dict(base, terminate_when="stop", values={}, conds=["stop"])
    P["terminate-simulation-when"] = dict(base, terminate_sim_when="stop", values={}, conds=["stop"])
    P["top-level-terminate-after-2-steps"] = dict(base, terminate_after=(2, "steps"), values={}, conds=[])
    P["top-level-terminate-after-seconds"] = dict(base, terminate_after=(2, "seconds"), values={}, conds=[])
    P["always-violated-at-the-time-limit-step"] = dict(base, terminate_after=(2, "steps"), require_always="ok", values={}, conds=["ok"])
    P["sub-always-violated-at-its-time-limit-step"] = dict(
        agents=[("a0", "B0")], behaviors={"B0": beh("a0")}, monitor=None, record=False,
        subs={"Sub": dict(compose=[("loop", [("log", "sub"), ("wait",)])], terminate_after=("N", "steps"), require_always="ok")},
        compose=[("do", "Sub", None), ("log", "after"), ("loop", [("wait",)])],
        values={"N": ("int", 0, 5)}, conds=["ok"])
    P["behavior-terminates"] = dict(
        agents=[("a0", "B0"), ("a1", "B1")],
        behaviors={"B0": [("loop", [("log", "beh:a0"), ("if", "quit", [("terminate",)]), ("take", "act:a0")])], "B1": beh("a1")},
        monitor=None, record=True, compose=None, values={}, conds=["quit"])
    P["behavior-terminates-simulation"] = dict(
        agents=[("a0", "B0"), ("a1", "B1")],
        behaviors={"B0": beh("a0"), "B1": [("loop", [("log", "beh:a1"), ("if", "quit", [("terminate_sim",)]), ("take", "act:a1")])]},
        monitor=None, record=False, compose=None, values={}, conds=["quit"])
    P["monitor-terminates"] = dict(
        agents=[("a0", "B0")], behaviors={"B0": beh("a0")},
        monitor=[("loop", [("log", "monitor"), ("if", "quit", [("terminate",)]), ("wait",)])], record=True, compose=None,
        values={}, conds=["quit"])
    sub_loop = dict(compose=[("loop", [("log", "sub"), ("wait",)])])
    P["sub-terminate-after-steps"] = dict(
        agents=[("a0", "B0")], behaviors={"B0": beh("a0")}, monitor=None, record=False,
        subs={"Sub": dict(sub_loop, terminate_after=("N", "steps"))},
        compose=[("log", "before"), ("do", "Sub", None), ("log", "after"), ("wait",), ("log", "after2")],
        values={"N": ("int", 0, 5)}, conds=[])
    P["sub-terminate-after-seconds"] = dict(
        agents=[("a0", "B0")], behaviors={"B0": beh("a0")}, monitor=None, record=False,
        subs={"Sub": dict(sub_loop, terminate_after=("N", "seconds"))},
        compose=[("do", "Sub", None), ("log", "after"), ("loop", [("wait",)])],
        values={"N": ("int", 0, 5)}, conds=[])
    P["do-sub-for-steps"] = dict(
        agents=[("a0", "B0")], behaviors={"B0": beh("a0")}, monitor=None, record=False,
        subs={"Sub": dict(sub_loop)},
        compose=[("do", "Sub", ("for", "N", "steps")), ("log", "after"), ("loop", [("wait",)])],
        values={"N": ("int", 0, None)}, conds=[])
    P["do-sub-for-seconds"] = dict(
        agents=[("a0", "B0")], behaviors={"B0": beh("a0")}, monitor=None, record=False,
        subs={"Sub": dict(sub_loop)},
        compose=[("do", "Sub", ("for", "N", "seconds")), ("log", "after"), ("loop", [("wait",)])],
        values={"N": ("int", 0, None)}, conds=[])
    P["do-sub-until"] = dict(
        agents=[("a0", "B0")], behaviors={"B0": beh("a0")}, monitor=None, record=False,
        subs={"Sub": dict(sub_loop)},
        compose=[("do", "Sub", ("until", "c")), ("log", "after"), ("terminate",)],
        values={}, conds=["c"])
    P["sub-terminate-when"] = dict(
        agents=[("a0", "B0")], behaviors={"B0": beh("a0")}, monitor=None, record=False,
        subs={"Sub": dict(sub_loop, terminate_when="c")},
        compose=[("do", "Sub", None), ("log", "after"), ("loop", [("wait",)])],
        values={}, conds=["c"])
    P["sub-terminate-simulation-when"] = dict(
        agents=[("a0", "B0")], behaviors={"B0": beh("a0")}, monitor=None, record=True,
        subs={"Sub": dict(sub_loop, terminate_sim_when="c")},
        compose=[("do", "Sub", None), ("log", "after"), ("loop", [("wait",)])],
        values={}, conds=["c"])
    P["sub-record-stops-with-the-sub-scenario"] = dict(
        agents=[("a0", "B0")], behaviors={"B0": beh("a0")}, monitor=None, record=True,
        subs={"Sub": dict(sub_loop, record=True)},
        compose=[("do", "Sub", ("for", "N", "steps")), ("log", "after"), ("loop", [("wait",)])],
        values={"N": ("int", 0, 5)}, conds=[])
    P["sub-record-terminate-after"] = dict(
        agents=[("a0", "B0")], behaviors={"B0": beh("a0")}, monitor=None, record=True,
        subs={"Sub": dict(sub_loop, record=True, terminate_after=("N", "steps"))},
        compose=[("do", "Sub", None), ("log", "after"), ("loop", [("wait",)])],
        values={"N": ("int", 0, 5)}, conds=[])
    P["behavior-do-for-steps"] = dict(
        agents=[("a0", "Top"), ("a1", "B1")],
        behaviors={"Inner": [("loop", [("log", "inner"), ("take", "act:inner")])],
                   "Top": [("do", "Inner", ("for", "N", "steps")), ("log", "resumed"), ("loop", [("take", "act:top")])],
                   "B1": beh("a1")},
        monitor=None, record=False, compose=None, values={"N": ("int", 0, None)}, conds=[])
    P["behavior-do-until"] = dict(
        agents=[("a0", "Top")],
        behaviors={"Inner": [("loop", [("log", "inner"), ("take", "act:inner")])],
                   "Top": [("do", "Inner", ("until", "c")), ("log", "resumed"), ("loop", [("take", "act:top")])]},
        monitor=None, record=False, compose=None, values={}, conds=["c"])
    P["wait-for-steps"] = dict(
        agents=[("a0", "W")], behaviors={"W": [("log", "start"), ("waitfor", "N", "steps"), ("log", "resumed"), ("loop", [("take", "act")])]},
        monitor=None, record=False, compose=None, values={"N": ("int", 0, None)}, conds=[])
    P["wait-until"] = dict(
        agents=[("a0", "W")], behaviors={"W": [("log", "start"), ("waituntil", "c"), ("log", "resumed"), ("loop", [("take", "act")])]},
        monitor=None, record=False, compose=None, values={}, conds=["c"])
    P["compose-finishes"] = dict(
        agents=[("a0", "B0")], behaviors={"B0": beh("a0")}, monitor=[("loop", [("log", "monitor"), ("wait",)])], record=True,
        compose=[("log", "c0"), ("wait",), ("log", "c1"), ("wait",), ("log", "c2")], values={}, conds=[])
    return P


_COMPILED = {}


def compiled(name, P):
    if name not in _COMPILED:
        import scenic

        _COMPILED[name] = scenic.scenarioFromString(D.program_text(P), mode2D=True)
    return _COMPILED[name]


def harness_for(name, P, horizon, dts):
    nag = sum(1 for a, b in P["agents"] if b)
    perms = list(itertools.permutations(range(nag)))

    def h(ctx):
        D.reset(ctx, P["values"])
        scenario = compiled(name, P)
        perm = ctx.choice("schedule", perms)
        dt = ctx.choice("timestep", dts)
        K = ctx.int("maxSteps", 1, horizon)
        k = 1
        while k < horizon and not (K == k):  # maxSteps realised: it bounds the length of every log
            k += 1
        from scenic.core.distributions import RejectionException

        try:
            scene, _ = scenario.generate(maxIterations=1, verbosity=0)
            sim = D.simulator(list(perm)).simulate(scene, maxSteps=k, timestep=dt, maxIterations=1, verbosity=0)
        except RejectionException:
            sim = None
        real_log = [e for e in D.LOG]
        ref = D.Ref(P, k, dt, list(perm))
        try:
            reason, ref_actions = ref.simulate()
            want_rejected = False
        except D.RefReject:
            want_rejected = True
        ctx.check("rejected-iff-the-reference-rejects", (sim is None) == want_rejected, rejected=sim is None, reference_rejects=want_rejected)
        if sim is None or want_rejected:
            return
        ok = real_log == ref.log
        first = next((i for i, (a, b) in enumerate(zip(real_log, ref.log)) if a != b), min(len(real_log), len(ref.log)))
        ctx.check("event-log-equals-reference-interpreter", ok, first_difference_at=first,
                  real=real_log[max(0, first - 2): first + 3], expected=ref.log[max(0, first - 2): first + 3])
        res = sim.result
        ctx.check("one-trajectory-state-per-step", len(res.trajectory) == ref.t + 1, states=len(res.trajectory), final_time=ref.t)
        ctx.check("one-action-log-entry-per-executed-step", len(res.actions) == ref.t and len(ref_actions) == ref.t,
                  entries=len(res.actions), executed=ref.t)
        ctx.check("clock-equals-number-of-executed-steps", sim.currentTime == ref.t)
        kinds = {"time limit": "timeLimit", "scenario": "scenarioComplete", "terminate when": "scenarioComplete",
                 "terminate": "scenarioComplete", "terminate simulation": "scenarioComplete",
                 "terminate simulation when": "simulationTerminationCondition", "monitor": "terminatedByMonitor",
                 "behavior": "terminatedByBehavior"}
        want = next(v for kk, v in sorted(kinds.items(), key=lambda kv: -len(kv[0])) if reason.startswith(kk))
        ctx.check("termination-type", res.terminationType.name == want, got=res.terminationType.name, reason=reason)

    return h


def warm(name, P):
    def s():
        import random

        class C:
            def bool(self, n):
                return random.Random(n).random() < 0.3

            def int(self, n, lo=None, hi=None):
                return 2

            def real(self, n, lo=None, hi=None):
                return 1.0

        sc = compiled(name, P)
        for _ in range(2):
            D.reset(C(), P["values"])
            try:
                scene, _ = sc.generate(maxIterations=1, verbosity=0)
                D.simulator(None).simulate(scene, maxSteps=3, maxIterations=1, verbosity=0)
            except Exception:
                pass

    return s


def obligations(tier, seed):
    import scenic.core.dynamics.behaviors as B
    import scenic.core.dynamics.invocables as I
    import scenic.core.dynamics.scenarios as S
    import scenic.core.simulators as SM

    enc = [SM.Simulation._run, SM.Simulation.__init__, SM.Simulation.recordCurrentState, SM.Simulation.updateObjects,
           S.DynamicScenario._start, S.DynamicScenario._step, S.DynamicScenario._stop, S.DynamicScenario._invokeInner,
           S.DynamicScenario._runMonitors, S.DynamicScenario._checkSimulationTerminationConditions,
           B.Behavior._step, B.Behavior._invokeInner, I.Invocable._invokeSubBehavior, I.runTryInterrupt]
    horizon = 3 if tier == "quick" else 4
    obs = []
    import os

    programs = dict(corpus())
    programs.update(generated(seed, int(os.environ.get("C12_GENERATED", "6" if tier == "quick" else "60"))))
    for name, P in programs.items():
        secs = any("seconds" in str(x) for x in (P.get("terminate_after"), P.get("compose"), P.get("subs"), P.get("behaviors")))
        dts = [1, 0.5, 2] if secs else [1]
        obs.append(Obligation(name, harness_for(name, P, horizon, dts), D.program_text(P).replace("\n", " ; ")[:400],
                              {"maxSteps": f"1..{horizon} (symbolic)", "durations": "symbolic integers >= 0, unbounded",
                               "timestep": dts, "schedules": "all permutations (symbolic)"}, enc,
                              ["DummySimulation with logging hooks", "conditions / durations read through builtins hooks"],
                              opts=dict(total_timeout=400.0, per_path_timeout=40.0), setup=warm(name, P)))
    return obs


# ------------------------------------------------------------------ generated programs of the core dynamic fragment
def gen_program(rnd, tag):
    conds = ["c0", "c1"]
    values = {"N": ("int", 0, 3), "M": ("int", 0, 3)}

    def dur():
        return (rnd.choice(["N", "M"]), rnd.choice(["steps", "steps", "seconds"]))

    def agent_behavior(name):
        k = rnd.random()
        log, act = ("log", f"beh:{name}"), ("take", f"act:{name}")
        if k < 0.35:
            return [("loop", [log, act])], {}
        if k < 0.50:
            return [("loop", [log, ("if", rnd.choice(conds), [(rnd.choice(["terminate", "terminate_sim"]),)]), act])], {}
        if k < 0.70:
            v, u = dur()
            mod = ("for", v, u) if rnd.random() < 0.5 else ("until", rnd.choice(conds))
            inner = {f"Inner_{name}": [("loop", [("log", f"inner:{name}"), ("take", f"act:inner:{name}")])]}
            return [("do", f"Inner_{name}", mod), ("log", f"resumed:{name}"), ("loop", [act])], inner
        if k < 0.85:
            v, u = dur()
            return [("log", f"start:{name}"), ("waitfor", v, u), ("log", f"resumed:{name}"), ("loop", [act])], {}
        return [("log", f"start:{name}"), ("waituntil", rnd.choice(conds)), ("log", f"resumed:{name}"), ("loop", [act])], {}

    nag = rnd.choice([1, 1, 2])
    agents, behaviors = [], {}
    for i in range(nag):
        body, extra = agent_behavior(f"a{i}")
        behaviors[f"B{i}"] = body
        behaviors.update(extra)
        agents.append((f"a{i}", f"B{i}"))
    monitor = None
    k = rnd.random()
    if k < 0.3:
        monitor = [("loop", [("log", "monitor"), ("wait",)])]
    elif k < 0.45:
        monitor = [("loop", [("log", "monitor"), ("if", rnd.choice(conds), [("terminate",)]), ("wait",)])]
    P = dict(agents=agents, behaviors=behaviors, monitor=monitor, record=rnd.random() < 0.5, values=values, conds=conds)
    k = rnd.random()
    if k < 0.2:
        P["terminate_when"] = rnd.choice(conds)
    elif k < 0.35:
        P["terminate_sim_when"] = rnd.choice(conds)
    elif k < 0.55:
        P["terminate_after"] = (rnd.randint(1, 3), rnd.choice(["steps", "seconds"]))
    if rnd.random() < 0.25:
        P["require_always"] = rnd.choice(conds)
    # sub-scenarios and compose block
    subs = {}
    for sname in ("SubA", "SubB")[: rnd.choice([0, 1, 1, 2])]:
        sub = dict(compose=[("loop", [("log", sname.lower()), ("wait",)])] if rnd.random() < 0.7
                   else [("log", sname.lower() + ":0"), ("wait",), ("log", sname.lower() + ":1")])
        k = rnd.random()
        if k < 0.3:
            sub["terminate_after"] = dur()
        elif k < 0.5:
            sub["terminate_when"] = rnd.choice(conds)
        elif k < 0.6:
            sub["terminate_sim_when"] = rnd.choice(conds)
        if rnd.random() < 0.25:
            sub["require_always"] = rnd.choice(conds)
        if rnd.random() < 0.3:
            sub["record"] = True
        subs[sname] = sub
    compose = None
    if subs or rnd.random() < 0.4:
        compose = [("log", "compose:start")]
        for _ in range(rnd.randint(1, 3)):
            k = rnd.random()
            if subs and k < 0.55:
                v, u = dur()
                mod = rnd.choice([None, ("for", v, u), ("until", rnd.choice(conds))])
                compose.append(("do", rnd.choice(sorted(subs)), mod))
                compose.append(("log", "compose:after-sub"))
            elif k < 0.75:
                compose.append(("wait",))
                compose.append(("log", "compose:tick"))
            elif k < 0.85:
                v, u = dur()
                compose.append(("waitfor", v, u))
                compose.append(("log", "compose:waited"))
            else:
                compose.append(("if", rnd.choice(conds), [("terminate",)]))
        if rnd.random() < 0.6:
            compose.append(("loop", [("log", "compose"), ("wait",)]))
    if subs:
        P["subs"] = subs
    P["compose"] = compose
    return P


def generated(seed, n):
    import random

    rnd = random.Random(1200 + seed)
    return {f"generated[{seed}.{i}]": gen_program(rnd, f"g{i}") for i in range(n)}
