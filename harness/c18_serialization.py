"""C18 - encoded scenes and simulations decode and replay to the same thing.

Solver-decided obligations over the real codecs in scenic.core.serialization /
scenic.core.vectors and the divergence test of scenic.core.simulators.
"""
import struct

from symx import engine as E
from symx import models as M
from symx.runner import Obligation

PROPERTY = "C18"
PRELOAD = ["scenic.core.serialization", "scenic.core.simulators", "scenic.core.vectors"]
LEVEL = "other"
EXPLANATION = (
    "Bounded symbolic execution (CrossHair + z3) of the real serialization code at three levels.  (1) Value codecs: "
    "the encoded integer / bool / bytes / str, the truncation point, the corrupted byte and its replacement are "
    "symbolic.  (2) Whole scenes: a corpus of programs (primitive distributions, derived values, multiplexers, "
    "regions and vectors, mutation; each also after Scenario.conditionOn) is sampled with every random.* call "
    "returning a symbolic value, the scene is written by Serializer.writeScene into a list-backed stream (floats "
    "as opaque 8-byte blocks) and read back: every object property and parameter of the decoded scene equals the "
    "original for all draws; every strict prefix is refused with SerializationError; any change to a header byte "
    "is refused.  (3) Replay: a simulation whose behaviour draws Range / DiscreteRange / Uniform values at run time "
    "is recorded and replayed with a different symbolic RNG: the replayed values equal the recorded ones and no "
    "fresh randomness is consumed while the replay lasts; a longer run continues with fresh draws; a replay cut at "
    "any byte is refused or continues, never crashes.  (4) Divergence: valuesHaveDiverged(scalar) <=> "
    "|actual - expected| > tolerance over the reals.  Satisfiable conditions are replayed concretely."
)
MANIFEST_ENTRY = {
    "category": "other",
    "text": "Bounded symbolic checking of the real codec, scene, replay and divergence code: for every value in the stated ranges, every truncation point and corrupted byte, every value of every random draw of the scene corpus (also after conditionOn) and of run-time draws during a recorded simulation, z3 decides the round-trip / refusal / equality conditions on every execution path; divergence of either sign is decided over the reals. Not a proof: bounds on integer width, string length, corpus and horizon are stated in the evidence.",
    "note": "Trusted: CrossHair's opcode-level symbolic execution, z3, the list-backed Stream stand-in for io.BytesIO, the struct '<d' opaque-block model, reals for floats. Outside: pickle fallback, 4-byte hash collisions, scenes with mesh-valued or orientation-valued random properties, divergence of vector-valued properties, real simulators.",
}
ASSUMPTIONS = [
    "integers bounded per obligation (stated in bounds); byte strings and text of length <= 3",
    "reals instead of IEEE floats for the divergence arithmetic",
]


def _ser(stream):
    from scenic.core.serialization import Serializer

    s = Serializer(b"")
    s.stream = stream
    return s


def _patches(ctx):
    pack, unpack = M.make_struct_model(ctx)
    return {struct.pack: pack, struct.unpack: unpack}


# value ranges by encoded length of writeInt
INT_RANGES = {
    "1byte": (0, 252),
    "2byte-neg": (-32768, -1),
    "2byte-pos": (253, 32767),
    "4byte-neg": (-2147483648, -32769),
    "4byte-pos": (32768, 2147483647),
    "5byte-pos": (2**31, 2**39 - 1),
    "5byte-neg": (-(2**39), -(2**31) - 1),
    "6byte-pos": (2**39, 2**47 - 1),
    "6byte-neg": (-(2**47), -(2**39) - 1),
    "8byte-pos": (2**55, 2**63 - 1),
    "9byte-neg": (-(2**63) - 2**32, -(2**63) - 1),
}


def h_int_roundtrip(lo, hi):
    def h(ctx):
        from scenic.core import serialization as S

        v = ctx.int("v", lo, hi)
        st = M.Stream()
        ser = _ser(st)
        ser.writeValue(v, int)
        n = len(st.buf)
        r = ser.readValue(int)
        ctx.check("roundtrip", r == v)
        ctx.check("consumed-exactly", st.pos == n)

    return h


def h_int_truncation(lo, hi):
    def h(ctx):
        from scenic.core import serialization as S

        v = ctx.int("v", lo, hi)
        st = M.Stream()
        ser = _ser(st)
        ser.writeValue(v, int)
        n = len(st.buf)
        cut = ctx.int("cut", 0, n - 1)
        # realise the cut position by forking (lengths are concrete on each path)
        c = 0
        while c < n - 1 and not (cut == c):
            c += 1
        st2 = M.Stream(st.buf[:c])
        ser2 = _ser(st2)
        try:
            r = ser2.readValue(int)
            outcome = "decoded"
        except S.SerializationError:
            outcome = "refused"
        except Exception as e:
            outcome = "other:" + type(e).__name__
        ctx.check("strict-prefix-refused", outcome == "refused", outcome=outcome, cutpos=c, length=n)

    return h


def h_int_corruption(lo, hi):
    def h(ctx):
        from scenic.core import serialization as S

        v = ctx.int("v", lo, hi)
        st = M.Stream()
        ser = _ser(st)
        ser.writeValue(v, int)
        n = len(st.buf)
        pos = ctx.int("pos", 0, n - 1)
        p = 0
        while p < n - 1 and not (pos == p):
            p += 1
        nb = ctx.int("newbyte", 0, 255)
        buf = list(st.buf)
        buf[p] = nb
        ser2 = _ser(M.Stream(buf))
        try:
            r = ser2.readValue(int)
            outcome = "int" if isinstance(r, int) else "wrongtype"
        except S.SerializationError:
            outcome = "refused"
        except Exception as e:
            outcome = "other:" + type(e).__name__
        ctx.check("corruption-contained", outcome in ("int", "refused"), outcome=outcome, pos=p)

    return h


def h_bool(ctx):
    from scenic.core import serialization as S

    b = ctx.flag("b")
    st = M.Stream()
    ser = _ser(st)
    ser.writeValue(b, bool)
    n = len(st.buf)
    r = ser.readValue(bool)
    ctx.check("roundtrip", r is b)
    ctx.check("consumed-exactly", st.pos == n)
    try:
        _ser(M.Stream([])).readValue(bool)
        out = "decoded"
    except S.SerializationError:
        out = "refused"
    ctx.check("empty-refused", out == "refused")


def h_bytes(maxlen):
    def h(ctx):
        from scenic.core import serialization as S

        L = ctx.int("len", 0, maxlen)
        n = 0
        while n < maxlen and not (L == n):
            n += 1
        data = bytes([ctx.int("byte", 0, 255) for _ in range(n)])
        st = M.Stream()
        ser = _ser(st)
        ser.writeValue(data, bytes)
        total = len(st.buf)
        r = ser.readValue(bytes)
        ctx.check("roundtrip", r == data)
        ctx.check("consumed-exactly", st.pos == total)
        # every strict prefix refused
        for c in range(total):
            try:
                _ser(M.Stream(st.buf[:c])).readValue(bytes)
                out = "decoded"
            except S.SerializationError:
                out = "refused"
            except Exception as e:
                out = "other:" + type(e).__name__
            ctx.check("strict-prefix-refused", out == "refused", cutpos=c, length=total, outcome=out)

    return h


def h_str(maxlen):
    def h(ctx):
        from scenic.core import serialization as S

        L = ctx.int("len", 0, maxlen)
        n = 0
        while n < maxlen and not (L == n):
            n += 1
        # ASCII text; multi-byte UTF-8 is outside the bound
        text = "".join(chr(ctx.int("ch", 32, 126)) for _ in range(n))
        st = M.Stream()
        ser = _ser(st)
        ser.writeValue(text, str)
        total = len(st.buf)
        r = ser.readValue(str)
        ctx.check("roundtrip", r == text)
        ctx.check("consumed-exactly", st.pos == total)
        for c in range(total):
            try:
                _ser(M.Stream(st.buf[:c])).readValue(str)
                out = "decoded"
            except S.SerializationError:
                out = "refused"
            except Exception as e:
                out = "other:" + type(e).__name__
            ctx.check("strict-prefix-refused", out == "refused", cutpos=c, length=total, outcome=out)

    return h


_SIMCLS = []


def _bare_simulation():
    """A Simulation instance without running __init__ (valuesHaveDiverged only reads divergenceTolerance)."""
    from scenic.core.simulators import Simulation

    if not _SIMCLS:
        class _Sim(Simulation):
            def createObjectInSimulator(self, obj): pass
            def getProperties(self, obj, properties): return {}
            def step(self): pass
        _SIMCLS.append(_Sim)
    return object.__new__(_SIMCLS[0])


def h_divergence_scalar(ctx):
    sim = _bare_simulation()
    tol = ctx.real("tol", 0, None)
    sim.divergenceTolerance = tol
    expected = ctx.real("expected")
    actual = ctx.real("actual")
    got = sim.valuesHaveDiverged(None, "speed", expected, actual)
    d = actual - expected
    want = E.sym_or(d > tol, -d > tol)
    got_b = True if got else False
    # property: reported divergent exactly when |actual-expected| > tolerance, either sign
    if got_b:
        ctx.check("reported-divergent-only-beyond-tolerance", want,
                  robust=E.sym_and(d < tol - 0.001, -d < tol - 0.001))
    else:
        ctx.check("divergence-beyond-tolerance-reported", E.sym_not(want),
                  robust=E.sym_or(d > tol + 0.001, -d > tol + 0.001))


def _scalar_div_replay(cex):
    sim = _bare_simulation()
    i = cex["inputs"]
    sim.divergenceTolerance = float(i["tol"])
    got = bool(sim.valuesHaveDiverged(None, "speed", float(i["expected"]), float(i["actual"])))
    want = abs(float(i["actual"]) - float(i["expected"])) > float(i["tol"])
    return got != want, f"valuesHaveDiverged(expected={float(i['expected'])}, actual={float(i['actual'])}, tol={float(i['tol'])}) = {got}, |diff|>tol is {want}"


def obligations(tier, seed):
    from scenic.core import serialization as S
    from scenic.core import simulators as sim

    enc_int = [S.writeInt, S.readInt, S.Serializer.writeValue, S.Serializer.readValue]
    obs = []
    ranges = dict(INT_RANGES)
    if tier == "quick":
        for k in ("6byte-pos", "6byte-neg", "8byte-pos"):
            ranges.pop(k)
    for name, (lo, hi) in ranges.items():
        b = {"value_range": [lo, hi]}
        obs.append(Obligation(f"int-roundtrip[{name}]", h_int_roundtrip(lo, hi),
                              "decode(encode(v)) == v and decoding consumes exactly the encoding",
                              b, enc_int, ["Stream: list-backed io.BytesIO stand-in (read/write/peek)"], opts=dict(vc_timeout=45.0, per_path_timeout=400.0, total_timeout=900.0)))
        obs.append(Obligation(f"int-truncation[{name}]", h_int_truncation(lo, hi),
                              "every strict prefix of an encoded int is refused with SerializationError",
                              dict(b, cut="0..len-1"), enc_int, ["Stream: list-backed io.BytesIO stand-in (read/write/peek)"], opts=dict(vc_timeout=45.0, per_path_timeout=400.0, total_timeout=900.0)))
        obs.append(Obligation(f"int-corruption[{name}]", h_int_corruption(lo, hi),
                              "one arbitrary corrupted byte: decoding yields an int or SerializationError, nothing else",
                              dict(b, position="any", new_byte="0..255"), enc_int,
                              ["Stream: list-backed io.BytesIO stand-in (read/write/peek)"], opts=dict(vc_timeout=45.0, per_path_timeout=400.0, total_timeout=900.0)))
    obs.append(Obligation("bool-codec", h_bool, "bool round trip / empty input refused", {}, [S.writeBool, S.readBool]))
    ml = 2 if tier == "quick" else 3
    obs.append(Obligation("bytes-codec", h_bytes(ml), "bytes round trip; every strict prefix refused",
                          {"max_len": ml}, [S.writeBytes, S.readBytes]))
    obs.append(Obligation("str-codec", h_str(ml), "ASCII str round trip; every strict prefix refused",
                          {"max_len": ml, "alphabet": "ASCII 32..126"}, [S.writeStr, S.readStr]))
    obs.append(Obligation("divergence-scalar", h_divergence_scalar,
                          "valuesHaveDiverged(scalar) <=> |actual-expected| > tolerance (both signs)",
                          {"tolerance": ">= 0", "values": "any real"}, [sim.Simulation.valuesHaveDiverged],
                          ["reals for floats"], system_replay=_scalar_div_replay))
    import scenic.core.distributions as dist
    import scenic.core.scenarios as scn

    enc_scene = [S.Serializer.writeScene, S.Serializer.readScene, S.Serializer.writeSamplable, S.Serializer.readSamplable,
                 dist.Samplable.serializeValue, dist.Samplable.deserializeValue, dist.Distribution.serializeValue,
                 dist.Distribution.deserializeValue, dist.MultiplexerDistribution.serializeValue,
                 dist.MultiplexerDistribution.deserializeValue, scn.Scenario._makeSceneFromSample, S.writeFloat, S.readFloat, S.writeInt, S.readInt]
    for name in SCENE_PROGRAMS:
        for cond in (False, True):
            tag = f"{name}{'+conditionOn' if cond else ''}"
            obs.append(Obligation(f"scene-roundtrip[{tag}]", h_scene(name, cond, "roundtrip"),
                                  "sceneFromBytes(sceneToBytes(scene)) has the same object properties and parameters, for every value of the random draws",
                                  {"draws": "symbolic (reals / ints in their ranges, every branch of every choice)"}, enc_scene,
                                  ["random.uniform/gauss/random/randint/choices as symbolic draws", M.STRUCT_MODEL, "Stream"],
                                  opts=(dict(total_timeout=60.0, per_path_timeout=30.0, max_paths=24) if name == "mutation"
                                        else dict(total_timeout=300.0, per_path_timeout=60.0)), setup=_scene_setup(name, cond)))
    for name in ("primitive-distributions", "multiplexers"):
        obs.append(Obligation(f"scene-truncation[{name}]", h_scene(name, False, "truncation"),
                              "every strict prefix of an encoded scene is refused with SerializationError",
                              {"cut": "0..len-1", "draws": "symbolic"}, enc_scene, [M.STRUCT_MODEL, "Stream"],
                              opts=dict(total_timeout=300.0, per_path_timeout=60.0), setup=_scene_setup(name, False)))
    obs.append(Obligation("scene-foreign-header[primitive-distributions]", h_scene("primitive-distributions", False, "foreign"),
                          "any change to the format version, program hash or options hash is refused",
                          {"byte": "any header byte", "new value": "0..255, different"}, enc_scene, [M.STRUCT_MODEL, "Stream"],
                          opts=dict(total_timeout=300.0, per_path_timeout=60.0), setup=_scene_setup("primitive-distributions", False)))
    import scenic.core.simulators as simm

    enc_replay = [simm.Simulation.initializeReplay, simm.Simulation.replayCanContinue, simm.Simulation.detectReplayEnd, simm.Simulation.recordSampledValue,
                  simm.Simulation.replaySampledValue, dist.Distribution.__new__, S.Serializer.writeReplayHeader, S.Serializer.readReplayHeader, S.Serializer.atEnd]
    for mode, desc in (("same-length", "a recorded simulation replays with the same run-time random values (Range / DiscreteRange / Uniform), drawing nothing fresh"),
                       ("continue", "a replay run for one more step than recorded continues with fresh draws after reproducing the recorded ones"),
                       ("truncated", "a replay cut at any byte is refused with SerializationError or continues past its end; never another exception")):
        obs.append(Obligation(f"replay-runtime-draws[{mode}]", h_replay(mode), desc, {"steps": 2, "draws per step": 3, "values": "symbolic"}, enc_replay,
                              ["random.* as symbolic draws", M.STRUCT_MODEL, "io.BytesIO / BufferedReader -> Stream", "DummySimulation with logging hooks"],
                              opts=dict(total_timeout=300.0, per_path_timeout=60.0), setup=_replay_setup))
    return obs


# ------------------------------------------------------------------ whole scenes: encode / decode with symbolic draws
SCENE_PROGRAMS = {
    "primitive-distributions": """
param p_range = Range(0, 10)
param p_disc = DiscreteRange(-3, 400)
param p_opt = Uniform(1, 2.5, 7)
param p_norm = Normal(0, 1)
ego = new Object at (Range(-5, 5), Range(-5, 5)), with allowCollisions True, with requireVisible False, with foo Range(0, 1)
other = new Object at (DiscreteRange(10, 20), 3), with allowCollisions True, with requireVisible False, with bar DiscreteRange(0, 300)
""",
    "derived-values": """
a = Range(0, 1)
b = DiscreteRange(5, 9)
param s = a + b
param t = (a * 2, b - 1)
ego = new Object at (a + 3, b), with allowCollisions True, with requireVisible False, with foo a + Range(10, 11), with bar 2 * b
other = new Object at (20, a - b), with allowCollisions True, with requireVisible False, with foo ego.foo + 1
""",
    "multiplexers": """
param m = Uniform(Range(0, 1), DiscreteRange(5, 9), 42)
param w = Options({Range(2, 3): 1, 7: 2})
param n = Uniform(Uniform(1, 2), Range(3, 4))
sel = Uniform(Range(0, 1), Range(10, 11))
ego = new Object at (sel, 0), with allowCollisions True, with requireVisible False, with foo sel + 1
""",
    "regions-and-vectors": """
param v = Range(0, 1) @ Range(2, 3)
ego = new Object in RectangularRegion((0, 0), 0, 4, 6), with allowCollisions True, with requireVisible False
other = new Object at ego.position + (10 @ Range(0, 2)), with allowCollisions True, with requireVisible False, with foo ego.position.x
""",
    "mutation": """
ego = new Object at (Range(-5, 5), 0), with allowCollisions True, with requireVisible False
other = new Object at (20, Range(0, 2)), with allowCollisions True, with requireVisible False
mutate ego
""",
}

_SCENES = {}


class SceneRNG:
    """random.* as symbolic draws constrained to their documented ranges."""

    def __init__(self, ctx):
        self.ctx = ctx

    def uniform(self, a, b):
        u = self.ctx.real("uniform")
        self.ctx.assume(E.sym_and(a <= u, u <= b))
        return u

    def gauss(self, mu, sigma):
        return self.ctx.real("gauss")

    def random(self):
        u = self.ctx.real("random", 0, None)
        self.ctx.assume(u < 1)
        return u

    def randint(self, a, b):
        r = self.ctx.int("randint")
        self.ctx.assume(E.sym_and(a <= r, r <= b))
        return r

    def choices(self, population, weights=None, *, cum_weights=None, k=1):
        population = list(population)
        i = self.ctx.int("choice", 0, len(population) - 1)
        j = 0
        while j < len(population) - 1 and not (i == j):
            j += 1
        return [population[j]]


class _RNGPatched:
    def __init__(self, rng):
        self.rng = rng

    def __enter__(self):
        import random

        self.saved = {n: getattr(random, n) for n in ("uniform", "gauss", "random", "randint", "choices")}
        for n in self.saved:
            setattr(random, n, getattr(self.rng, n))

    def __exit__(self, *a):
        import random

        for n, f in self.saved.items():
            setattr(random, n, f)
        return False


def _scene_setup(name, conditioned):
    def s():
        import scenic

        sc = scenic.scenarioFromString(SCENE_PROGRAMS[name], mode2D=True)
        def warm(scene):
            try:  # warm-up only: a failure here is found (and reported as a violation) by the exploration itself
                sc.sceneFromBytes(sc.sceneToBytes(scene))
            except Exception:
                pass

        for _ in range(2):
            scene, _n = sc.generate(maxIterations=50, verbosity=0)
            warm(scene)
        if conditioned:
            params = {}
            for p, v in sc.params.items():
                params[p] = 1.5
                break
            sc.conditionOn(scene=scene, objects=(len(sc.objects) - 1,), params=params)
            scene, _n = sc.generate(maxIterations=50, verbosity=0)
            warm(scene)
        _SCENES[(name, conditioned)] = sc

    return s


def _flat(v, out, path):
    """Flatten a property / parameter value into (path, scalar) pairs (numbers, vectors, tuples)."""
    from scenic.core.vectors import Orientation, Vector

    if isinstance(v, Vector):
        for i, c in enumerate(v.coordinates):
            out.append((path + f".{'xyz'[i]}", c))
    elif isinstance(v, (tuple, list)):
        for i, c in enumerate(v):
            _flat(c, out, path + f"[{i}]")
    elif isinstance(v, (bool, str, type(None))):
        out.append((path, v))
    elif E.is_symbolic(v) or isinstance(v, (int, float)):
        out.append((path, v))
    elif hasattr(v, "item") and not hasattr(v, "__len__"):  # numpy scalar
        out.append((path, v.item()))
    elif isinstance(v, Orientation):
        for i, c in enumerate(v.q):
            out.append((path + f".q{i}", c))


def _scene_values(scenario, scene):
    out = []
    for i, o in enumerate(scene.objects):
        for prop in sorted(o.properties):
            if prop in ("shape", "behavior", "regionContainedIn", "lastActions", "mutator"):
                continue
            try:
                v = getattr(o, prop)
            except Exception:
                continue
            _flat(v, out, f"objects[{i}].{prop}")
    for p in sorted(scene.params):
        _flat(scene.params[p], out, f"params[{p}]")
    return out


def h_scene(name, conditioned, mode):
    def h(ctx):
        from scenic.core.serialization import SerializationError, Serializer

        sc = _SCENES[(name, conditioned)]
        with _RNGPatched(SceneRNG(ctx)):
            scene, _n = sc.generate(maxIterations=1, verbosity=0)
        saved = (struct.pack, struct.unpack)
        struct.pack, struct.unpack = M.make_struct_model(ctx)
        try:
            body(ctx, sc, scene)
        finally:
            struct.pack, struct.unpack = saved

    def body(ctx, sc, scene):
        from scenic.core.serialization import SerializationError, Serializer

        w = _ser(M.Stream())
        w.writeScene(sc, scene)
        data = w.stream.getvalue()
        if mode == "roundtrip":
            r = _ser(M.Stream(data))
            scene2 = r.readScene(sc)
            ctx.check("decoding-consumes-the-whole-encoding", r.stream.remaining() == 0, left=r.stream.remaining())
            a, b = _scene_values(sc, scene), _scene_values(sc, scene2)
            ctx.check("same-objects-properties-and-parameters", [p for p, _ in a] == [p for p, _ in b])
            mutated = {f"objects[{i}]." for i, o in enumerate(scene.objects) if o.mutationScale != 0}
            for (pa, va), (pb, vb) in zip(a, b):
                same = (va == vb)
                if not E.is_symbolic(same):
                    same = True if same else False
                if any(pa.startswith(m) for m in mutated):
                    # one label for all properties of an object with mutation enabled (see known_findings.json)
                    ctx.check("decoded mutated object equals original", same, property=pa, original=va, decoded=vb)
                else:
                    ctx.check(f"decoded {pa} equals original", same, original=va, decoded=vb)
        elif mode == "truncation":
            cut = ctx.int("cut", 0, len(data) - 1)
            n = 0
            while n < len(data) - 1 and not (cut == n):
                n += 1
            r = _ser(M.Stream(data[:n]))
            try:
                r.readScene(sc)
                outcome = "decoded"
            except SerializationError:
                outcome = "refused"
            ctx.check("truncated-scene-refused-with-serialization-error", outcome == "refused", cut=n, length=len(data))
        elif mode == "foreign":
            which = ctx.choice("header-field", ["version", "astHash", "optionsHash"])
            lo, hi = {"version": (0, 2), "astHash": (2, 6), "optionsHash": (6, 10)}[which]
            i = ctx.choice("byte", list(range(lo, hi)))
            nb = ctx.int("new-byte", 0, 255)
            ctx.assume(nb != data[i])
            bad = list(data)
            bad[i] = nb
            r = _ser(M.Stream(bad))
            try:
                r.readScene(sc)
                outcome = "decoded"
            except SerializationError:
                outcome = "refused"
            ctx.check("scene-of-a-different-program-version-or-options-refused", outcome == "refused", field=which, byte=i)

    return h


# ------------------------------------------------------------------ replay of run-time random values
# (the drawn values are not kept in behaviour locals: CrossHair deep-realises the object graph reachable from a
#  scenario when the runtime calls list.remove(scenario), which would concretise them)
REPLAY_PROGRAM = """
behavior B():
    while True:
        _symx_log(('drawn', Range(0, 1), DiscreteRange(0, 3), Uniform(10, 20.5, 30)))
        take _symx_action('a')
ego = new Object at (0, 0), with name 'a0', with allowCollisions True, with requireVisible False, with behavior B()
"""
_REPLAY = {}


def _replay_setup():
    import scenic
    from harness import dyn_common as D

    class C:
        pass

    sc = scenic.scenarioFromString(REPLAY_PROGRAM, mode2D=True)
    scene, _ = sc.generate(maxIterations=1, verbosity=0)
    for _ in range(2):
        D.reset(C(), {})
        sim = D.simulator(None).simulate(scene, maxSteps=2, maxIterations=1, verbosity=0)
        try:
            D.simulator(None).simulate(scene, maxSteps=2, maxIterations=1, verbosity=0, replay=sim.getReplay())
        except Exception:
            pass
    _REPLAY["scene"] = scene


class _FakeIO:
    """io as used by Serializer: BytesIO / BufferedReader over the list-backed Stream."""

    class BufferedIOBase:
        pass

    @staticmethod
    def BytesIO(data=b""):
        return M.Stream(data)

    @staticmethod
    def BufferedReader(stream):
        return stream


def h_replay(mode):
    def h(ctx):
        import scenic.core.serialization as S
        from harness import dyn_common as D
        from scenic.core.serialization import SerializationError

        scene = _REPLAY["scene"]
        steps = 2

        def draws():
            return [e[1][1:] for e in D.LOG if isinstance(e[1], tuple) and e[1][0] == "drawn"]

        class CountingRNG(SceneRNG):
            calls = 0

            def uniform(self, a, b):
                type(self).calls += 1
                return super().uniform(a, b)

            def randint(self, a, b):
                type(self).calls += 1
                return super().randint(a, b)

            def choices(self, *a, **k):
                type(self).calls += 1
                return super().choices(*a, **k)

        saved = (struct.pack, struct.unpack, S.io)
        struct.pack, struct.unpack = M.make_struct_model(ctx)
        S.io = _FakeIO
        try:
            D.reset(ctx, {})
            with _RNGPatched(SceneRNG(ctx)):
                sim1 = D.simulator(None).simulate(scene, maxSteps=steps, maxIterations=1, verbosity=0)
            first = draws()
            data = sim1.getReplay()
            extra = 1 if mode == "continue" else 0
            if mode == "truncated":
                cut = ctx.int("cut", 0, len(data) - 1)
                n = 0
                while n < len(data) - 1 and not (cut == n):
                    n += 1
                data = data[:n]
            D.reset(ctx, {})
            CountingRNG.calls = 0
            try:
                with _RNGPatched(CountingRNG(ctx)):
                    sim2 = D.simulator(None).simulate(scene, maxSteps=steps + extra, maxIterations=1, verbosity=0, replay=data)
                outcome = "completed" if sim2 is not None else "rejected"
            except SerializationError:
                outcome = "serialization-error"
            second = draws()
        finally:
            struct.pack, struct.unpack, S.io = saved
        if mode == "truncated":
            ctx.check("truncated-replay-is-refused-or-continues-never-crashes", outcome in ("completed", "serialization-error"), outcome=outcome, cut=n)
            # whatever was replayed before the cut equals the recording
            for i, (a, b) in enumerate(zip(first, second)):
                if i * 3 + 3 <= (len(first) * 3 - CountingRNG.calls if outcome == "completed" else 0):
                    for j in range(3):
                        ctx.check("values-replayed-before-the-cut-equal-the-recording", a[j] == b[j], step=i, value=j)
            return
        ctx.check("replay-completes", outcome == "completed", outcome=outcome)
        ctx.check("one-set-of-draws-per-step", len(first) == steps and len(second) == steps + extra, first=len(first), second=len(second))
        for i, (a, b) in enumerate(zip(first, second)):
            for j in range(3):
                ctx.check("replayed-run-time-random-value-equals-the-recorded-one", a[j] == b[j], step=i, value=["Range", "DiscreteRange", "Uniform"][j])
        ctx.check("no-fresh-randomness-while-the-replay-lasts", CountingRNG.calls == 3 * extra, rng_calls=CountingRNG.calls, expected=3 * extra)

    return h
