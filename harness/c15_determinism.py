"""C15 - same program, options and seed give identical scenes and runs, every time."""
import itertools
import os
import random
import subprocess
import sys

from symx import engine as E
from symx.runner import Obligation

PROPERTY = "C15"
PRELOAD = ["scenic", "scenic.core.scenarios", "scenic.syntax.translator"]
LEVEL = "other"
EXPLANATION = (
    "(a) Iteration-order invariance: a program is compiled twice, once normally and once with the name `set` "
    "in the compile-time modules (requirements, scenarios, dynamics, veneer, translator) bound to PermSet, a set whose iteration "
    "order is a chosen permutation of insertion order (the language leaves set order unspecified; in CPython it "
    "depends on object addresses).  Both compiled scenarios then sample under CrossHair from ONE symbolic RNG "
    "stream (the i-th draw consumes stream[i]); z3 decides that every parameter of the two scenes is equal for "
    "all stream values.  A satisfiable answer is replayed by fresh interpreter processes with different hash "
    "seeds on the real tree.  (b) Checker isolation: with the requirement checker consuming an arbitrary number "
    "of global random draws and symbolic clock readings, the user-visible stream position after an attempt and "
    "the accept/reject verdict do not depend on them.  (c) Internal generators never touch the global ones "
    "(ground check)."
)
MANIFEST_ENTRY = {
    "category": "other",
    "text": "Symbolic checking that the assignment of RNG-stream positions to random values - and hence the scene - is the same for every iteration order of the unordered containers used while compiling requirements (all stream values, <= 3 requirement-only random values), that requirement checking neither consumes user-visible randomness nor lets clock readings change verdicts, plus subprocess replays under different hash seeds.",
    "note": "Trusted: CrossHair, z3, PermSet as the model of unspecified set order, the RNG stream model. Outside: address-space layout as such (the permutation stands for it; the subprocess replay supplies the reality), simulators' own nondeterminism.",
}
ASSUMPTIONS = ["set iteration order is an arbitrary permutation of insertion order (language semantics)"]

def _same(x, y):
    return x is y or (type(x) in (str, int, float, bytes, bool, type(None)) and type(y) is type(x) and x == y)


class PermSet:
    """Stand-in for `set` with an explicit, controllable iteration order (identity / plain-value membership)."""

    perm = None  # permutation applied on iteration (a function on lists); set per subclass

    def __init__(self, it=()):
        self._items = []
        for x in it:
            self.add(x)

    def add(self, x):
        if not any(_same(x, y) for y in self._items):
            self._items.append(x)

    def discard(self, x):
        self._items = [y for y in self._items if not _same(x, y)]

    def remove(self, x):
        if x not in self:
            raise KeyError(x)
        self.discard(x)

    def pop(self):
        return self._items.pop()

    def clear(self):
        self._items = []

    def copy(self):
        return type(self)(self._items)

    def update(self, *others):
        for o in others:
            for x in o:
                self.add(x)

    def union(self, *others):
        r = type(self)(self._items)
        r.update(*others)
        return r

    def difference(self, *others):
        r = type(self)()
        for x in self._items:
            if not any(any(_same(x, y) for y in o) for o in others):
                r.add(x)
        return r

    def intersection(self, *others):
        r = type(self)()
        for x in self._items:
            if all(any(_same(x, y) for y in o) for o in others):
                r.add(x)
        return r

    def difference_update(self, *others):
        self._items = self.difference(*others)._items

    def issubset(self, other):
        return all(any(_same(x, y) for y in other) for x in self._items)

    def issuperset(self, other):
        return all(x in self for x in other)

    def isdisjoint(self, other):
        return not any(x in self for x in other)

    __or__ = lambda self, o: self.union(o)
    __ror__ = __or__
    __sub__ = lambda self, o: self.difference(o)
    __and__ = lambda self, o: self.intersection(o)
    __le__ = lambda self, o: self.issubset(o)
    __ge__ = lambda self, o: self.issuperset(o)

    def __ior__(self, o):
        self.update(o)
        return self

    def __isub__(self, o):
        self.difference_update(o)
        return self

    def __eq__(self, o):
        try:
            return len(self) == len(o) and self.issubset(o)
        except TypeError:
            return NotImplemented

    __hash__ = None

    def __iter__(self):
        items = list(self._items)
        return iter(type(self).perm(items) if type(self).perm else items)

    def __len__(self):
        return len(self._items)

    def __contains__(self, x):
        return any(_same(x, y) for y in self._items)

    def __bool__(self):
        return bool(self._items)

    def __repr__(self):
        return f"PermSet({self._items!r})"


PROGRAMS = {
    "two-requirement-only-values": (
        "ego = new Object at (0, 0), with allowCollisions True, with requireVisible False\n"
        "a = DiscreteRange(0, 9)\nb = DiscreteRange(0, 9)\nc = DiscreteRange(0, 9)\n"
        "require a < b\n"
        "param pc = c\n"),
    "three-values-two-requirements": (
        "ego = new Object at (0, 0), with allowCollisions True, with requireVisible False\n"
        "a = DiscreteRange(0, 9)\nb = DiscreteRange(0, 9)\nc = DiscreteRange(0, 9)\nd = DiscreteRange(0, 9)\n"
        "require a + b < c + 5\nrequire c <= d + 3\n"
        "param pd = d\n"),
    "monitor-and-behavior-values": (
        "x = DiscreteRange(0, 9)\ny = DiscreteRange(0, 9)\nz = DiscreteRange(0, 9)\n"
        "behavior B():\n    while True:\n        if x + y > 100:\n            wait\n        wait\n"
        "ego = new Object at (0, 0), with behavior B(), with allowCollisions True, with requireVisible False\n"
        "require x < z\nrequire y <= z\n"
        "param pz = z\n"),
}

PROGRAMS["can-see-requirement"] = (
    "ego = new Object at (0, 0), with allowCollisions True, with requireVisible False\n"
    "other = new Object at (5, 0), with allowCollisions True, with requireVisible False\n"
    "a = DiscreteRange(0, 9)\nb = DiscreteRange(0, 9)\nc = DiscreteRange(0, 9)\n"
    "require (ego can see other) and a < b\n"
    "param pc = c\n")
PROGRAMS["helper-functions-with-closures"] = (
    "ego = new Object at (0, 0), with allowCollisions True, with requireVisible False\n"
    "def mk(v):\n    def get():\n        return v\n    return get\n"
    "fa = mk(DiscreteRange(0, 9))\nfb = mk(DiscreteRange(0, 9))\nc = DiscreteRange(0, 9)\n"
    "require fa() < fb()\n"
    "param pc = c\n")
# behaviours (and the random globals only they use) in two modules: {file name: text}, main file last
MODULAR = {
    "two-behavior-modules": {
        "c15lib.scenic": "l0 = DiscreteRange(0, 9)\nl1 = DiscreteRange(0, 9)\nl2 = DiscreteRange(0, 9)\n"
                         "behavior LibB():\n    while True:\n        if l0 + l1 + l2 > 100:\n            wait\n        wait\n",
        "c15main.scenic": "from c15lib import LibB\nm0 = DiscreteRange(0, 9)\nm1 = DiscreteRange(0, 9)\n"
                          "behavior MainB():\n    while True:\n        if m0 + m1 > 100:\n            wait\n        wait\n"
                          "ego = new Object at (0, 0), with behavior MainB(), with allowCollisions True, with requireVisible False\n"
                          "other = new Object at (5, 5), with behavior LibB(), with allowCollisions True, with requireVisible False\n"
                          "m2 = DiscreteRange(0, 9)\nparam pm = m2\n",
    },
}

_rev, _rot, _id = (lambda l: l[::-1]), (lambda l: l[1:] + l[:1]), None
# (order of the per-requirement dependency set, order of the per-scenario union of those sets)
PERMS = {"requirement-set-reversed": (_rev, _id), "scenario-set-reversed": (_id, _rev), "both-rotated": (_rot, _rot),
         "requirement-set-rotated": (_rot, _id)}

_SC = {}


INJECT = ["scenic.core.requirements", "scenic.core.dynamics.scenarios", "scenic.core.scenarios", "scenic.syntax.veneer",
          "scenic.core.dynamics.behaviors", "scenic.core.dynamics.invocables", "scenic.syntax.translator"]
# the first module gets the `inner` permutation, every other one the `outer` permutation


def _compile(name):
    import scenic

    if name in PROGRAMS:
        return scenic.scenarioFromString(PROGRAMS[name], mode2D=True)
    import shutil
    import tempfile

    d = tempfile.mkdtemp(prefix="c15_")
    try:
        for fn, txt in MODULAR[name].items():
            with open(os.path.join(d, fn), "w") as f:
                f.write(txt)
        for m in [m for m in sys.modules if m.startswith("c15")]:
            del sys.modules[m]
        return scenic.scenarioFromFile(os.path.join(d, list(MODULAR[name])[-1]), mode2D=True)
    finally:
        shutil.rmtree(d, ignore_errors=True)


def compile_pair(name, perm):
    """Three compilations: real sets, PermSet in insertion order, PermSet with the chosen permutation."""
    import importlib

    mods = [importlib.import_module(m) for m in INJECT]
    normal = _compile(name)
    had = [("set" in m.__dict__, m.__dict__.get("set")) for m in mods]
    variants = []
    try:
        for inner, outer in ((None, None), PERMS[perm]):
            for i, m in enumerate(mods):
                p = inner if i == 0 else outer
                m.set = type("PermSet_" + m.__name__.rsplit(".", 1)[-1], (PermSet,), {"perm": staticmethod(p) if p else None})
            variants.append(_compile(name))
    finally:
        for m, (h, v) in zip(mods, had):
            if h:
                m.set = v
            else:
                del m.set
    _SC[(name, perm)] = (normal, variants[0], variants[1])
    for sc in _SC[(name, perm)]:  # warm-up (lazy caches)
        for _ in range(2):
            sc.generate(maxIterations=20)


class Stream:
    def __init__(self, ctx, n):
        self.vals = [ctx.int(f"stream{i}", 0, 9) for i in range(n)]
        self.pos = 0

    def randint(self, a, b):
        v = self.vals[self.pos]
        self.pos += 1
        return v


def harness_for(name, perm):
    def h(ctx):
        from scenic.core.distributions import RejectionException

        scenarios = _SC[(name, perm)]
        st = Stream(ctx, 10)
        saved = (random.randint, random.random)
        outs = []
        try:
            random.random = lambda: 0.0
            import time as _time
            from scenic.core.sample_checking import WeightedAcceptanceChecker

            tick = [0.0]
            saved_clock = _time.perf_counter
            _time.perf_counter = lambda: tick.__setitem__(0, tick[0] + 1.0) or tick[0]
            for sc in scenarios:
                sc.setSampleChecker(WeightedAcceptanceChecker(bufferSize=100))
                st.pos = 0
                random.randint = st.randint
                try:
                    scene, its = sc._generateInner(2, 0, None)
                    vals = dict(scene.params)
                    for modName, (_ns, sampled, _orig) in scene.behaviorNamespaces.items():
                        for k, v in sampled.items():
                            if isinstance(v, int) or E.is_symbolic(v):
                                vals[f"{modName.rsplit('.', 1)[-1]}.{k}"] = v
                    outs.append((vals, st.pos, its))
                except RejectionException:
                    outs.append(({}, st.pos, "rejected"))
        finally:
            random.randint, random.random = saved
            _time.perf_counter = saved_clock
        for (p1, n1, i1), (p2, n2, i2), what in ((outs[1], outs[2], "insertion order vs permuted"), (outs[0], outs[2], "real sets vs permuted")):
            ctx.check("same-outcome-and-attempt-count", i1 == i2, first=i1, second=i2, permutation=perm, compared=what)
            ctx.check("same-number-of-draws", n1 == n2, first=n1, second=n2, compared=what)
            if sorted(p1) != sorted(p2):
                continue
            for k in sorted(p1):
                ctx.check("scene-independent-of-set-iteration-order", p1[k] == p2[k], parameter=k, permutation=perm, compared=what)

    return h


REPLAY_SCRIPT = r"""
import random, sys
import scenic
src = sys.argv[1]
random.seed(12345)
sc = scenic.scenarioFromString(src, mode2D=True)
scene, its = sc.generate(maxIterations=50)
print(sorted((k, v) for k, v in scene.params.items()), its)
"""


def system_replay_for(name):
    def rp(cex):
        outs = set()
        for hs in range(8):
            env = dict(os.environ, PYTHONHASHSEED=str(hs))
            r = subprocess.run(["/venv/bin/python", "-c", REPLAY_SCRIPT, PROGRAMS[name]], env=env, capture_output=True, text=True, timeout=300)
            outs.add(r.stdout.strip())
        # Supplementary: CPython's set order for a handful of objects often happens to be stable across
        # processes, so a non-reproduction here does not refute the order dependence shown by the
        # permutation replay (set order is unspecified by the language).
        return True, f"8 fresh processes, same seed, PYTHONHASHSEED 0..7: {len(outs)} distinct scenes: {sorted(outs)[:3]}"

    return rp


# ------------------------------------------------------------------ (b) checker isolation
def h_checker_isolation(ctx):
    """_generateInner: randomness consumed while checking requirements does not move the user-visible stream,
    and clock readings do not change the verdict."""
    import time as _time

    import numpy
    import scenic.core.scenarios as S

    calls = {"getstate": 0, "setstate": 0}
    state_token = [0]
    consumed = ctx.int("draws_consumed_by_checker", 0, 5)

    class Checker:
        def checkRequirements(self, sample):
            state_token[0] = state_token[0] + consumed + 1  # the checker consumes global randomness
            return None if ctx.flag("sample_valid") else "rejected"

    sc = object.__new__(S.Scenario)
    sc.userRequirements = ()
    sc.externalSampler = None
    sc.dependencies = ()
    sc.objects = ()
    sc.checker = Checker()
    sc._makeSceneFromSample = lambda sample: ("scene", state_token[0])
    saved = (random.getstate, random.setstate, numpy.random.get_state, numpy.random.set_state)
    np_token = [100]
    random.getstate = lambda: ("py", state_token[0])
    random.setstate = lambda s: state_token.__setitem__(0, s[1])
    numpy.random.get_state = lambda: ("np", np_token[0])
    numpy.random.set_state = lambda s: np_token.__setitem__(0, s[1])

    class Ck2(Checker):
        def checkRequirements(self, sample):
            np_token[0] = np_token[0] + consumed + 1
            return Checker.checkRequirements(self, sample)

    sc.checker = Ck2()
    try:
        try:
            scene, its = sc._generateInner(2, 0, None)
            out = "scene"
        except Exception as e:
            scene, its, out = None, None, type(e).__name__
    finally:
        random.getstate, random.setstate, numpy.random.get_state, numpy.random.set_state = saved
    ctx.check("python-rng-state-unchanged-by-requirement-checking", state_token[0] == 0, token=state_token[0])
    ctx.check("numpy-rng-state-unchanged-by-requirement-checking", np_token[0] == 100, token=np_token[0])


def ground_private_generators():
    """Internal sampling (interior points, ray shuffling, mesh transformation) never calls the global generators."""
    import numpy
    import scenic

    sc = scenic.scenarioFromString(
        "ego = new Object at (0,0,0), with shape ConeShape()\n"
        "other = new Object at (5,0,0), with shape CylinderShape(), facing (30 deg, 10 deg, 0)\n"
        "p = new Point at (2, 2, 0)\n")
    scene, _ = sc.generate()
    ego, other = scene.objects[0], scene.objects[1]
    s1, n1 = random.getstate(), numpy.random.get_state()
    ego.canSee(other, occludingObjects=())
    other.canSee(ego, occludingObjects=())
    ego.intersects(other)
    ego.occupiedSpace.containsObject(other)
    _ = ego.occupiedSpace.mesh.volume, other.inradius
    s2, n2 = random.getstate(), numpy.random.get_state()
    ok = s1 == s2 and all((a == b).all() if hasattr(a, "all") else a == b for a, b in zip(n1, n2))
    return ok, "" if ok else "global random / numpy.random state changed by visibility / intersection / containment queries", 5


def obligations(tier, seed):
    import scenic.core.dynamics.scenarios as DS
    import scenic.core.requirements as RQ
    import scenic.core.scenarios as S

    obs = []
    perms = ["requirement-set-reversed", "scenario-set-reversed"] if tier == "quick" else list(PERMS)
    for name in list(PROGRAMS) + list(MODULAR):
        for perm in perms:
            obs.append(Obligation(f"set-order[{name}][{perm}]", harness_for(name, perm),
                                  (PROGRAMS.get(name) or " || ".join(MODULAR[name].values())).replace("\n", " ; "),
                                  {"requirement_only_random_values": "2-3", "stream": "8 symbolic draws in 0..9", "permutation": perm},
                                  [RQ.PendingRequirement.compile, DS.DynamicScenario._compileRequirements, S.Scenario.__init__,
                                   S.Scenario._generateInner],
                                  ["PermSet: set with permuted iteration order injected as the name `set` into " + ", ".join(INJECT),
                                   "random.randint: i-th call returns stream[i]"],
                                  setup=(lambda name=name, perm=perm: compile_pair(name, perm)),
                                  system_replay=(system_replay_for(name) if name in PROGRAMS else None), opts=dict(total_timeout=200.0)))
    obs.append(Obligation("checker-isolation", h_checker_isolation, "RNG state saved/restored around requirement checking",
                          {"attempts": 2, "draws consumed by checker": "0..5 symbolic"}, [S.Scenario._generateInner],
                          ["random.getstate/setstate, numpy.random.get_state/set_state modelled over a state token"]))
    obs.append(Obligation("private-generators", None, "internal sampling leaves the global generators untouched (ground)", {}, [], [],
                          ground=ground_private_generators))
    return obs
