"""C13 - interrupts pre-empt and resume as documented; guards are checked when promised."""
import itertools
import os

from symx import engine as E
from symx.runner import Obligation
from harness import dyn_common as D

PROPERTY = "C13"
PRELOAD = ["scenic", "scenic.core.simulators", "scenic.syntax.translator", "rv_ltl"]
LEVEL = "other"
EXPLANATION = (
    "Programs of the interrupt fragment (nested try-interrupt, several handlers, handlers that take actions / "
    "invoke sub-behaviours / abort / break / continue / return, inside loops and sub-behaviours; behaviours "
    "with preconditions and invariants) are rendered from a mini-IR, compiled by the real front end and run "
    "through Simulator.simulate under CrossHair with every interrupt condition and guard reading a "
    "step-indexed symbolic truth table.  A reference interpreter written from docs/reference/statements.rst "
    "(latest enabled-or-suspended clause wins, outer over inner, resume where stopped, abort / break / continue "
    "/ return, guards at start and at every resumption of the behaviour itself) runs on the same tables; the "
    "action sequence, or the rejection / GuardViolation outcome, must agree on every path."
)
MANIFEST_ENTRY = {
    "category": "other",
    "text": "Bounded symbolic checking through the real compiler and runtime: for each program of the fixed interrupt/guard corpus and of a seeded set generated from the grammar of the fragment (nested try-interrupt to depth 3, up to 3 handlers, abort/break/continue/return, loops, do-until/for, guards) and every step-indexed truth table of its conditions within the horizon, the action log and the accept / reject / GuardViolation outcome equal those of a reference interpreter of the documented semantics.",
    "note": "Trusted: CrossHair, z3, the reference interpreter, DummySimulation. Bounds: horizon <= 4 steps, nesting depth <= 2, <= 2 handlers per statement. For Boolean tables symbolic execution amounts to solver-guided enumeration with don't-care merging.",
}
ASSUMPTIONS = ["conditions and guards are pure reads of step-indexed truth tables"]


def T(tag):
    return ("take", tag)


def corpus():
    P = {}

    def prog(behaviors, agent_beh="Top", **kw):
        return dict(agents=[("a0", agent_beh)], behaviors=behaviors, monitor=None, record=False, compose=None,
                    values={}, **kw)

    P["one-handler-resume"] = prog({"Top": [("try", [("loop", [T("body1"), T("body2")])], [("c", [T("h1"), T("h2")])])]}, conds=["c"])
    P["two-handlers-priority"] = prog({"Top": [("try", [("loop", [T("body")])], [("c1", [T("h1a"), T("h1b")]), ("c2", [T("h2a"), T("h2b")])])]},
                                      conds=["c1", "c2"])
    P["nested-outer-wins"] = prog({"Top": [("try", [("try", [("loop", [T("body")])], [("ci", [T("inner1"), T("inner2")])])],
                                            [("co", [T("outer1"), T("outer2")])])]}, conds=["ci", "co"])
    P["handler-abort"] = prog({"Top": [("try", [("loop", [T("body")])], [("c", [T("h"), ("abort",)])]), ("loop", [T("after")])]}, conds=["c"])
    P["handler-break"] = prog({"Top": [("loop", [("try", [T("b1"), T("b2")], [("c", [T("h"), ("break",)])]), T("tail")]), ("loop", [T("after")])]},
                              conds=["c"])
    P["handler-continue"] = prog({"Top": [("loop", [T("head"), ("try", [T("b1"), T("b2")], [("c", [T("h"), ("continue",)])]), T("tail")])]},
                                 conds=["c"])
    P["handler-return"] = prog({"Inner": [("try", [("loop", [T("ib")])], [("c", [T("h"), ("return",)])])],
                                "Top": [("do", "Inner", None), ("loop", [T("after")])]}, conds=["c"])
    P["handler-invokes-sub"] = prog({"Sub": [T("s1"), T("s2")],
                                     "Top": [("try", [("loop", [T("body")])], [("c", [("do", "Sub", None)])])]}, conds=["c"])
    P["body-invokes-sub"] = prog({"Sub": [("loop", [T("s")])],
                                  "Top": [("try", [("do", "Sub", None)], [("c", [T("h")])])]}, conds=["c"])
    P["interrupt-in-sub-behavior"] = prog({"Sub": [("try", [("loop", [T("sb")])], [("ci", [T("sh")])])],
                                           "Top": [("try", [("do", "Sub", None)], [("co", [T("th1"), T("th2")])])]}, conds=["ci", "co"])
    P["precondition"] = prog({"Top": dict(pre=["pre"], inv=[], body=[("loop", [T("a")])])}, conds=["pre"])
    P["invariant-after-actions"] = prog({"Top": dict(pre=[], inv=["inv"], body=[("loop", [T("a"), ("wait",)])])}, conds=["inv"])
    P["sub-precondition"] = prog({"Sub": dict(pre=["pre"], inv=[], body=[T("s1"), T("s2")]),
                                  "Top": [T("t0"), ("do", "Sub", None), ("loop", [T("after")])]}, conds=["pre"])
    P["invariant-not-checked-while-sub-runs"] = prog(
        {"Sub": [T("s1"), T("s2")], "Top": dict(pre=[], inv=["inv"], body=[T("t0"), ("do", "Sub", None), ("loop", [T("after")])])},
        conds=["inv"])
    P["invariant-with-interrupt"] = prog(
        {"Top": dict(pre=[], inv=["inv"], body=[("try", [("loop", [T("body")])], [("c", [T("h1"), T("h2")])])])}, conds=["inv", "c"])
    P["invariant-while-sub-runs-under-do-until"] = prog(
        {"Sub": [("loop", [T("s")])], "Top": dict(pre=[], inv=["inv"], body=[T("t0"), ("do", "Sub", ("until", "c")), ("loop", [T("after")])])},
        conds=["inv", "c"])
    P["invariant-while-sub-runs-under-try"] = prog(
        {"Sub": [("loop", [T("s")])], "Top": dict(pre=[], inv=["inv"], body=[("try", [("do", "Sub", None)], [("c", [T("h")])])])},
        conds=["inv", "c"])
    # plain break / continue of a loop that sits inside an interrupt block, after a nested try-interrupt
    for kw in ("break", "continue"):
        P[f"loop-{kw}-after-nested-try-in-body"] = prog(
            {"Top": [("try", [("loop", [("try", [T("b1")], [("ci", [T("ih")])]), ("if", "cb", [(kw,)]), T("tail")]),
                              ("loop", [T("rest")])],
                      [("co", [T("oh")])])]}, conds=["ci", "cb", "co"])
        P[f"loop-{kw}-after-nested-try-in-handler"] = prog(
            {"Top": [("try", [("loop", [T("body")])],
                      [("co", [("repeat", 2, [("try", [T("hb")], [("ci", [T("ih")])]), ("if", "cb", [(kw,)]), T("htail")]),
                               T("hend")])])]}, conds=["ci", "cb", "co"])
    # break / continue in a handler of a NESTED try-interrupt: the loop is around the outer statement, or inside an outer block
    for kw in ("break", "continue"):
        P[f"nested-handler-{kw}-reaches-the-loop-around-both"] = prog(
            {"Top": [("loop", [T("head"), ("try", [("try", [T("b1"), T("b2")], [("ci", [T("ih"), (kw,)])])], [("co", [T("oh")])]), T("tail")]),
                     ("loop", [T("after")])]}, conds=["ci", "co"])
        P[f"loop-inside-outer-handler-nested-handler-{kw}"] = prog(
            {"Top": [("try", [("loop", [T("body")])],
                      [("co", [("repeat", 2, [T("h1"), ("try", [T("hb")], [("ci", [T("ih"), (kw,)])]), T("h2")]), T("hend")])])]}, conds=["ci", "co"])
        P[f"loop-inside-outer-body-nested-handler-{kw}"] = prog(
            {"Top": [("try", [("repeat", 2, [T("b1"), ("try", [T("b2")], [("ci", [T("ih"), (kw,)])]), T("b3")]), ("loop", [T("rest")])],
                      [("co", [T("oh")])])]}, conds=["ci", "co"])
    # a nested statement with more handlers than the enclosing one
    P["nested-try-with-more-handlers-than-the-outer"] = prog(
        {"Top": [("try", [T("b0"), ("try", [("loop", [T("ib")])], [("c1", [T("h1"), ("return",)]), ("c2", [T("h2a"), T("h2b")]), ("c3", [T("h3")])])],
                  [("c0", [T("oh"), ("abort",)])]), ("loop", [T("after")])]}, conds=["c0", "c1", "c2", "c3"])
    # abandoned sub-behaviours are stopped: the same behaviour object can be invoked again
    P["abandoned-sub-object-reinvoked-after-abort"] = prog(
        {"Sub": [T("s1"), T("s2"), T("s3")],
         "Top": [("newobj", "Sub"), ("loop", [("try", [("doobj", "Sub"), T("after-sub")], [("c", [T("h"), ("abort",)])])])]}, conds=["c"])
    P["abandoned-nested-subs-reinvoked-after-break"] = prog(
        {"Leaf": [("loop", [T("leaf")])], "Mid": [("newobj", "Leaf"), T("mid"), ("doobj", "Leaf")],
         "Top": [("newobj", "Mid"), ("repeat", 3, [("loop", [("try", [("doobj", "Mid")], [("c", [T("h"), ("break",)])])])]),
                 ("loop", [T("end")])]}, conds=["c"])
    P["sub-object-reinvoked-after-do-until"] = prog(
        {"Sub": [("loop", [T("s1"), T("s2")])],
         "Top": [("newobj", "Sub"), ("loop", [("do", "Sub", ("until", "c")), T("between")])]}, conds=["c"])
    return P


_COMPILED = {}


def compiled(name, P):
    if name not in _COMPILED:
        import scenic

        try:
            _COMPILED[name] = scenic.scenarioFromString(D.program_text(P), mode2D=True)
        except Exception as e:  # a program of the fragment that does not compile is a violation, reported by the harness
            _COMPILED[name] = ("compile-failure", type(e).__name__ + ": " + str(e)[:200])
    return _COMPILED[name]


def harness_for(name, P, horizon, raise_guards):
    def h(ctx):
        import scenic.core.dynamics.behaviors as B
        from scenic.core.dynamics.guards import GuardViolation

        D.reset(ctx, P["values"])
        scenario = compiled(name, P)
        if isinstance(scenario, tuple):
            ctx.check("program-of-the-fragment-compiles", False, error=scenario[1])
            return
        scene, _ = scenario.generate(maxIterations=1, verbosity=0)
        started = []
        orig_start = B.Behavior._start

        def recording_start(self, agent):
            started.append(self)
            return orig_start(self, agent)

        B.Behavior._start = recording_start
        try:
            sim = D.simulator(None).simulate(scene, maxSteps=horizon, maxIterations=1, verbosity=0,
                                             raiseGuardViolations=raise_guards)
            outcome = "accepted" if sim is not None else "rejected"
        except GuardViolation:
            sim, outcome = None, "guard-violation"
        except (AssertionError, InvalidScenarioErrorT()) as e:
            sim, outcome = None, "error:" + type(e).__name__
        finally:
            B.Behavior._start = orig_start
        real_log = [e for e in D.LOG]
        ref = D.Ref(P, horizon, 1, None)
        try:
            ref.simulate()
            want = "accepted"
        except D.RefReject as r:
            want = "guard-violation" if raise_guards else "rejected"
        ctx.check("outcome-equals-reference", outcome == want, got=outcome, want=want)
        if outcome == "accepted" and want == "accepted":
            acts_real = [e for e in real_log if isinstance(e[1], tuple) and e[1][0] == "apply"]
            acts_ref = [e for e in ref.log if isinstance(e[1], tuple) and e[1][0] == "apply"]
            first = next((i for i, (a, b) in enumerate(zip(acts_real, acts_ref)) if a != b), min(len(acts_real), len(acts_ref)))
            ctx.check("action-sequence-equals-reference-interpreter", acts_real == acts_ref, first_difference_at=first,
                      real=acts_real[max(0, first - 2): first + 2], expected=acts_ref[max(0, first - 2): first + 2])
        import gc

        gc.collect()  # suspended generator chains are closed (and their sub-behaviours stopped) on collection
        left = sorted({type(b).__name__ for b in started if b._isRunning or b._agent is not None})
        ctx.check("every-behaviour-started-is-stopped-when-the-simulation-is-over", not left, still_running=left)

    return h


def InvalidScenarioErrorT():
    from scenic.core.errors import InvalidScenarioError

    return InvalidScenarioError


def warm(name, P):
    def s():
        import random

        class C:
            def bool(self, n):
                return random.Random(n).random() < 0.5

            def int(self, n, lo=None, hi=None):
                return 2

        sc = compiled(name, P)
        if isinstance(sc, tuple):
            return
        for _ in range(2):
            D.reset(C(), P["values"])
            try:
                scene, _ = sc.generate(maxIterations=1, verbosity=0)
                D.simulator(None).simulate(scene, maxSteps=3, maxIterations=1, verbosity=0)
            except Exception:
                pass

    return s


def obligations(tier, seed):
    import scenic.core.dynamics.behaviors as B
    import scenic.core.dynamics.invocables as I
    from scenic.syntax import compiler

    enc = [I.runTryInterrupt, I.InterruptBlock.step, I.InterruptBlock.isEnabled.fget, I.Invocable._invokeSubBehavior,
           I.Invocable._checkAllPreconditions, B.Behavior._start, B.Behavior._step, B.Behavior._invokeInner,
           compiler.ScenicToPythonTransformer.visit_TryInterrupt]
    horizon = 3 if tier == "quick" else 4
    obs = []
    programs = dict(corpus())
    ngen = int(os.environ.get("C13_GENERATED", "6" if tier == "quick" else "60"))
    programs.update(generated(seed, ngen))
    for name, P in programs.items():
        guards = any(isinstance(b, dict) for b in P["behaviors"].values())
        for rg in ([False, True] if guards else [False]):
            obs.append(Obligation(f"{name}{'[raiseGuardViolations]' if rg else ''}", harness_for(name, P, horizon, rg),
                                  D.program_text(P).replace("\n", " ; ")[:400],
                                  {"steps": horizon, "conditions": "step-indexed symbolic truth tables"}, enc,
                                  ["DummySimulation with logging hooks", "conditions read through builtins hooks"],
                                  opts=dict(total_timeout=400.0, per_path_timeout=40.0), setup=warm(name, P)))
    return obs


# ------------------------------------------------------------------ generated programs of the interrupt fragment
def gen_program(rnd, tag):
    """A random program of the interrupt fragment: nested try-interrupt (depth <= 3, <= 3 handlers), handlers that take
    actions / invoke sub-behaviours / abort / break / continue / return, loops, `do ... until/for`, guards."""
    conds = [f"c{i}" for i in range(3)]
    counter = [0]

    def act():
        counter[0] += 1
        return T(f"{tag}a{counter[0]}")

    def block(depth, in_loop, in_try, allow_do, size):
        """A statement list that always starts with an action (so that no loop can spin without yielding)."""
        out = [act()]
        for _ in range(rnd.randint(0, size)):
            k = rnd.random()
            if k < 0.30:
                out.append(act())
            elif k < 0.40:
                out.append(("wait",))
            elif k < 0.55 and depth > 0:
                nh = rnd.randint(1, 3 if depth == 3 else 2)
                handlers = [(rnd.choice(conds), handler(depth - 1, in_loop, allow_do)) for _ in range(nh)]
                out.append(("try", block(depth - 1, in_loop, True, allow_do, 2), handlers))
            elif k < 0.65 and depth > 0:
                out.append(("loop", block(depth - 1, True, in_try, allow_do, 2)))
                break  # nothing after an infinite loop unless it can be left; keep it last
            elif k < 0.72 and depth > 0:
                out.append(("repeat", rnd.randint(1, 2), block(depth - 1, True, in_try, allow_do, 1)))
            elif k < 0.82 and allow_do:
                mod = rnd.choice([None, None, ("until", rnd.choice(conds)), ("for", "n", "steps")])
                out.append(("do", "Sub", mod))
            elif k < 0.90:
                out.append(("if", rnd.choice(conds), [act()]))
            elif in_loop and k < 0.95:
                out.append(("if", rnd.choice(conds), [(rnd.choice(["break", "continue"]),)]))
        return out

    def handler(depth, in_loop, allow_do):
        body = block(depth, in_loop, True, allow_do, 1)
        k = rnd.random()
        if k < 0.25:
            body.append(("abort",))
        elif k < 0.40 and in_loop:
            body.append((rnd.choice(["break", "continue"]),))
        elif k < 0.55:
            body.append(("return",))
        return body

    sub = block(2, False, False, False, 2)
    top = block(3, False, False, True, 3)
    if rnd.random() < 0.5:
        top = [("loop", top)] if rnd.random() < 0.5 else top + [("loop", [act()])]
    behaviors = {"Sub": sub, "Top": top}
    if rnd.random() < 0.3:
        behaviors["Top"] = dict(pre=[], inv=["inv"], body=top)
    if rnd.random() < 0.2:
        behaviors["Sub"] = dict(pre=["pre"] if rnd.random() < 0.5 else [], inv=["sinv"] if rnd.random() < 0.5 else [], body=sub)
    return dict(agents=[("a0", "Top")], behaviors=behaviors, monitor=None, record=False, compose=None,
                values={"n": ("int", 1, 2)}, conds=conds)


def generated(seed, n):
    import random

    rnd = random.Random(1300 + seed)
    return {f"generated[{seed}.{i}]": gen_program(rnd, f"g{i}") for i in range(n)}
