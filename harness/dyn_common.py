"""Shared machinery for the dynamic-semantics harnesses (C12, C13, C14, C19).

* a mini-IR of dynamic Scenic programs, rendered to Scenic source text (compiled by the real front end);
* builtins hooks called from the program text: an event log, step-indexed condition tables, symbolic values;
* a logging Simulator/Simulation pair (subclass of the real Simulation);
* a reference interpreter of the IR written from docs/reference/dynamic_scenarios.rst and statements.rst.
"""
import builtins
import itertools

from symx import engine as E

LOG = []          # event log of the real run
CTX = [None]
TABLE = {}        # (cond name, time) -> bool (symbolic or concrete)
VALUES = {}       # name -> symbolic / concrete value
VALUE_SPECS = {}  # name -> (kind, lo, hi)


def now():
    import scenic.syntax.veneer as veneer

    sim = veneer.currentSimulation
    return sim.currentTime if sim is not None else 0


def _log(tag):
    LOG.append((now(), tag))
    return True


def cond_cell(name, t):
    key = (name, t)
    if key not in TABLE:
        TABLE[key] = CTX[0].bool(f"{name}_t{t}")
    return TABLE[key]


def _cond(name):
    v = cond_cell(name, now())
    return True if v else False  # realised where the program reads it


def value(name):
    if name not in VALUES:
        kind, lo, hi = VALUE_SPECS[name]
        VALUES[name] = CTX[0].int(name, lo, hi) if kind == "int" else CTX[0].real(name, lo, hi)
    return VALUES[name]


def _val(name):
    return value(name)


class _Action:
    def __init__(self, tag):
        self.tag = tag

    def canBeTakenBy(self, agent):
        return True

    def applyTo(self, agent, sim):
        LOG.append((now(), ("apply", self.tag)))


def _action(tag):
    from scenic.core.simulators import Action

    class A(Action):
        def __init__(s, tag):
            s.tag = tag

        def applyTo(s, agent, sim):
            LOG.append((now(), ("apply", tag)))

    return A(tag)


DRAWN = []


def _draw(v):
    DRAWN.append((now(), v))
    LOG.append((now(), "draw"))
    return v


builtins._symx_draw = _draw
builtins._symx_log = _log
builtins._symx_cond = _cond
builtins._symx_val = _val
builtins._symx_action = _action


def reset(ctx, value_specs):
    # Harness hygiene for a tracing artifact: suspended behaviour generators abandoned by an earlier path are
    # normally closed (by reference counting) while their simulation is being torn down, i.e. BEFORE
    # veneer.endSimulation resets currentBehavior; under CrossHair's tracer they may be closed later, and the
    # `with executeInBehavior(...)` blocks they were suspended in then restore a stale currentBehavior.
    import gc

    import scenic.syntax.veneer as _veneer

    gc.collect()
    if _veneer.currentSimulation is None:
        _veneer.currentBehavior = None
    del LOG[:]
    del DRAWN[:]
    TABLE.clear()
    VALUES.clear()
    VALUE_SPECS.clear()
    VALUE_SPECS.update(value_specs)
    CTX[0] = ctx


# ------------------------------------------------------------------ logging simulator
_SIMCLS = []


def simulator(schedule_perm=None):
    from scenic.core.simulators import DummySimulation, DummySimulator, Simulation

    if not _SIMCLS:
        class LogSimulation(DummySimulation):
            perm = None

            def executeActions(self, allActions):
                LOG.append((self.currentTime, ("exec", tuple((a.name, tuple(getattr(x, "tag", "?") for x in acts))
                                                             for a, acts in allActions.items()))))
                Simulation.executeActions(self, allActions)  # the default implementation (applies every action)

            def step(self):
                LOG.append((self.currentTime, "simstep"))
                super().step()

            def getProperties(self, obj, properties):
                LOG.append((self.currentTime, ("read", obj.name)))
                return super().getProperties(obj, properties)

            def scheduleForAgents(self):
                agents = list(self.agents)
                p = type(self).perm
                if p is not None and len(p) == len(agents):
                    if self.currentTime % 2 == 1:  # the schedule may change from step to step
                        p = list(reversed(p))
                    return [agents[i] for i in p]
                return agents

        class LogSimulator(DummySimulator):
            def createSimulation(self, scene, **kwargs):
                return LogSimulation(scene, drift=0, **kwargs)

        _SIMCLS.extend([LogSimulation, LogSimulator])
    _SIMCLS[0].perm = schedule_perm
    return _SIMCLS[1]()


# ------------------------------------------------------------------ IR -> Scenic text
def body_text(body, ind, ctxkind):
    """ctxkind: 'behavior' | 'compose' | 'monitor'."""
    pad = " " * ind
    out = []
    for st in body:
        k = st[0]
        if k == "log":
            out.append(f"{pad}_symx_log({st[1]!r})")
        elif k == "wait":
            out.append(f"{pad}wait")
        elif k == "take":
            out.append(f"{pad}take _symx_action({st[1]!r})")
        elif k == "loop":
            out.append(f"{pad}while True:")
            out += body_text(st[1], ind + 4, ctxkind)
        elif k == "repeat":
            out.append(f"{pad}for _i in range({st[1]}):")
            out += body_text(st[2], ind + 4, ctxkind)
        elif k == "do":
            mod = st[2]
            m = ""
            if mod:
                if mod[0] == "for":
                    m = f" for _symx_val({mod[1]!r}) {mod[2]}"
                else:
                    m = f" until _symx_cond({mod[1]!r})"
            out.append(f"{pad}do {st[1]}(){m}")
        elif k == "newobj":
            out.append(f"{pad}_obj_{st[1]} = {st[1]}()")
        elif k == "doobj":
            out.append(f"{pad}do _obj_{st[1]}")
        elif k == "terminate":
            out.append(f"{pad}terminate")
        elif k == "terminate_sim":
            out.append(f"{pad}terminate simulation")
        elif k == "waitfor":
            out.append(f"{pad}wait for _symx_val({st[1]!r}) {st[2]}")
        elif k == "waituntil":
            out.append(f"{pad}wait until _symx_cond({st[1]!r})")
        elif k == "if":
            out.append(f"{pad}if _symx_cond({st[1]!r}):")
            out += body_text(st[2], ind + 4, ctxkind)
        elif k == "try":
            out.append(f"{pad}try:")
            out += body_text(st[1], ind + 4, ctxkind)
            for cname, hbody in st[2]:
                out.append(f"{pad}interrupt when _symx_cond({cname!r}):")
                out += body_text(hbody, ind + 4, ctxkind)
        elif k in ("abort", "break", "continue", "return"):
            out.append(f"{pad}{k}")
        elif k in ("dochoose", "doshuffle"):
            items = st[1]
            kw = "choose" if k == "dochoose" else "shuffle"
            if all(w is None for _n, w in items):
                out.append(f"{pad}do {kw} " + ", ".join(f"{n}()" for n, _w in items))
            else:
                out.append(f"{pad}do {kw} {{" + ", ".join(f"{n}(): {w}" for n, w in items) + "}")
        elif k == "draw":
            out.append(f"{pad}_symx_draw(DiscreteRange({st[1]}, {st[2]}))")
        elif k == "drawkw":
            out.append(f"{pad}_symx_draw(DiscreteRange({st[1]}, {st[2]}, weights={tuple(st[3])!r}))")
        elif k == "whilecond":
            out.append(f"{pad}while _symx_cond({st[1]!r}):")
            out += body_text(st[2], ind + 4, ctxkind)
        else:
            raise ValueError(st)
    if not out:
        out.append(f"{pad}pass")
    return out


def program_text(P):
    L = []
    for name, b in P.get("behaviors", {}).items():
        L.append(f"behavior {name}():")
        if isinstance(b, dict):
            for c in b.get("pre", []):
                L.append(f"    precondition: _symx_cond({c!r})")
            for c in b.get("inv", []):
                L.append(f"    invariant: _symx_cond({c!r})")
            b = b["body"]
        L += body_text(b, 4, "behavior")
    if P.get("monitor") is not None:
        L.append("monitor Mon():")
        L += body_text(P["monitor"], 4, "monitor")
    for name, sub in P.get("subs", {}).items():
        L.append(f"scenario {name}():")
        for c in sub.get("pre", []):
            L.append(f"    precondition: _symx_cond({c!r})")
        L.append("    setup:")
        setup = []
        if sub.get("terminate_after"):
            vn, units = sub["terminate_after"]
            setup.append(f"        terminate after _symx_val({vn!r}) {units}")
        if sub.get("require_always"):
            setup.append(f"        require always _symx_cond({sub['require_always']!r})")
        if sub.get("terminate_when"):
            setup.append(f"        terminate when _symx_cond({sub['terminate_when']!r})")
        if sub.get("terminate_sim_when"):
            setup.append(f"        terminate simulation when _symx_cond({sub['terminate_sim_when']!r})")
        if sub.get("record"):
            setup.append("        record _symx_log('sub-record') as subrec")
        if sub.get("setup_log"):
            setup.append(f"        _symx_log({sub['setup_log']!r})")
        L += setup or ["        pass"]
        if sub.get("compose") is not None:
            L.append("    compose:")
            L += body_text(sub["compose"], 8, "compose")
    L.append("scenario Main():")
    L.append("    setup:")
    first = True
    for i, (aname, beh) in enumerate(P["agents"]):
        tgt = "ego" if first else aname
        first = False
        b = f", with behavior {beh}()" if beh else ""
        L.append(f"        {tgt} = new Object at ({10 * i}, 0), with name {aname!r}, with allowCollisions True{b}")
    if P.get("record"):
        L.append("        record _symx_log('record') as rec")
    if P.get("monitor") is not None:
        L.append("        require monitor Mon()")
    if P.get("require_always"):
        L.append(f"        require always _symx_cond({P['require_always']!r})")
    if P.get("terminate_when"):
        L.append(f"        terminate when _symx_cond({P['terminate_when']!r})")
    if P.get("terminate_sim_when"):
        L.append(f"        terminate simulation when _symx_cond({P['terminate_sim_when']!r})")
    if P.get("terminate_after") is not None:
        L.append(f"        terminate after {P['terminate_after'][0]} {P['terminate_after'][1]}")
    if P.get("compose") is not None:
        L.append("    compose:")
        L += body_text(P["compose"], 8, "compose")
    return "\n".join(L) + "\n"


# ------------------------------------------------------------------ reference interpreter
class Stop(Exception):
    def __init__(self, kind):
        self.kind = kind  # 'scenario' | 'simulation'


class FromSub(tuple):
    """Actions yielded by a running sub-behaviour (the invoking behaviour is not itself resumed)."""


class Control(Exception):
    def __init__(self, kind):
        self.kind = kind  # 'abort' | 'break' | 'continue' | 'return'


class RefReject(Exception):
    def __init__(self, why):
        self.why = why


class Ref:
    """Reference interpreter of the IR following the ten-step procedure of the reference manual.

    Produces the expected event log [(time, event)] and the termination step."""

    def __init__(self, P, max_steps, timestep, perm, cell=cond_cell, val=value):
        self.P, self.max_steps, self.dt, self.perm = P, max_steps, timestep, perm
        self.cell, self.val = cell, val
        self.t = 0
        self.log = []
        self.running_subs = []
        self.rng_requests = []
        self.choice_source = lambda k, weights: 0

    def ev(self, e):
        self.log.append((self.t, e))

    def cond(self, name):
        v = self.cell(name, self.t)
        return True if v else False

    def enabled(self, name):
        """Preconditions (and invariants) of a behaviour / scenario hold now."""
        b = self.P["behaviors"].get(name) if name in self.P.get("behaviors", {}) else self.P["subs"][name]
        if isinstance(b, dict):
            return all(self.cond(c) for c in list(b.get("pre", [])) + list(b.get("inv", [])))
        return True

    def draw_choice(self, weights):
        """One weighted draw among the currently enabled items (index into that list)."""
        self.rng_requests.append(("choices", tuple(weights), self.t))
        return self.choice_source(len(self.rng_requests) - 1, weights)

    def check_inv(self, inv):
        for c in inv:
            if not self.cond(c):
                raise RefReject("invariant " + c)

    def run_behavior(self, name):
        """A behaviour with its guards: preconditions and invariants when it starts, invariants whenever it
        resumes after an action or after a sub-behaviour has finished."""
        b = self.P["behaviors"][name]
        if isinstance(b, dict):
            for c in b.get("pre", []):
                if not self.cond(c):
                    raise RefReject("precondition " + c)
            self.check_inv(b.get("inv", []))
            try:
                yield from self.run_body(b["body"], "behavior", tuple(b.get("inv", [])))
            except Control as c:
                if c.kind != "return":
                    raise
        else:
            try:
                yield from self.run_body(b, "behavior", ())
            except Control as c:
                if c.kind != "return":
                    raise

    # bodies as generators: yield ('wait', actions) to end the step
    def run_body(self, body, kind, inv=()):
        for st in body:
            k = st[0]
            if k == "log":
                self.ev(st[1])
            elif k == "wait":
                yield ()
                self.check_inv(inv)
            elif k == "take":
                yield (st[1],)
                self.check_inv(inv)
            elif k == "loop":
                try:
                    while True:
                        try:
                            yield from self.run_body(st[1], kind, inv)
                        except Control as c:
                            if c.kind != "continue":
                                raise
                except Control as c:
                    if c.kind != "break":
                        raise
            elif k == "whilecond":
                try:
                    while self.cond(st[1]):
                        try:
                            yield from self.run_body(st[2], kind, inv)
                        except Control as c:
                            if c.kind != "continue":
                                raise
                except Control as c:
                    if c.kind != "break":
                        raise
            elif k == "repeat":
                try:
                    for _ in range(st[1]):
                        try:
                            yield from self.run_body(st[2], kind, inv)
                        except Control as c:
                            if c.kind != "continue":
                                raise
                except Control as c:
                    if c.kind != "break":
                        raise
            elif k in ("abort", "break", "continue", "return"):
                raise Control(k)
            elif k == "draw":
                self.rng_requests.append(("randint", st[1], st[2], self.t))
                self.ev("draw")
            elif k == "drawkw":
                self.rng_requests.append(("choices", tuple(st[3]), self.t, "value"))  # a value draw, not a choice of item
                self.ev("draw")
            elif k in ("dochoose", "doshuffle"):
                remaining = list(st[1])
                while remaining:
                    enabled = [(n, w) for n, w in remaining if self.enabled(n)]
                    if not enabled:
                        raise RefReject("deadlock in do choose/shuffle")
                    if len(enabled) == 1:
                        pick = enabled[0]
                    else:
                        i = self.draw_choice([1 if w is None else w for _n, w in enabled])
                        pick = enabled[i]
                    remaining.remove(pick)
                    if k == "dochoose":
                        remaining = []
                    yield from self.run_do(pick[0], None, kind)
                if kind == "behavior":
                    self.check_inv(inv)
            elif k == "try":
                yield from self.run_try(st[1], st[2], kind, inv)
            elif k == "terminate":
                raise Stop("scenario")
            elif k == "terminate_sim":
                raise Stop("simulation")
            elif k == "waitfor":
                n = self.val(st[1])
                if st[2] == "seconds":
                    n = n / self.dt
                start = self.t
                while not (self.t - start >= n):
                    yield ()
                    self.check_inv(inv)
            elif k == "waituntil":
                while not self.cond(st[1]):
                    yield ()
                    self.check_inv(inv)
            elif k == "if":
                if self.cond(st[1]):
                    yield from self.run_body(st[2], kind, inv)
            elif k == "newobj":
                pass  # a behaviour object; it can be invoked again once it has finished or been stopped
            elif k in ("do", "doobj"):
                yield from self.run_do(st[1], st[2] if k == "do" else None, kind)
                if kind == "behavior":
                    self.check_inv(inv)  # resumed after a finished sub-behaviour
            else:
                raise ValueError(st)

    def run_try(self, body, handlers, kind, inv):
        """try-interrupt: at every step the enabled-or-suspended handler whose clause comes latest runs;
        otherwise the body; a finished handler returns control; `abort` ends the statement."""
        body_it = self.run_body(body, kind, inv)
        its = [None] * len(handlers)
        while True:
            block = None
            for i in reversed(range(len(handlers))):
                if its[i] is not None or self.cond(handlers[i][0]):
                    block = i
                    break
            if block is None:
                it = body_it
            else:
                if its[block] is None:
                    its[block] = self.run_body(handlers[block][1], kind, inv)
                it = its[block]
            try:
                r = next(it)
            except StopIteration:
                if block is None:
                    return
                its[block] = None
                continue
            except Control as c:
                if c.kind == "abort":
                    return
                raise
            yield r
            if not isinstance(r, FromSub):
                self.check_inv(inv)  # the behaviour itself resumes after an action

    def run_do(self, name, mod, kind):
        if kind == "behavior":
            inner = (FromSub(r) for r in self.run_behavior(name))
            sub = None
        else:
            sub = SubScenario(self, name)
            inner = sub.steps()
        if mod is None:
            yield from inner
            return
        if mod[0] == "for":
            n = self.val(mod[1])
            if mod[2] != "steps":
                n = n / self.dt
            start = self.t
            done = lambda: self.t - start >= n
        else:
            done = lambda: self.cond(mod[1])
        while True:
            if done():
                if sub is not None:
                    sub.stop()
                return
            try:
                r = next(inner)
            except StopIteration:
                return
            yield r

    def simulate(self):
        P = self.P
        agents = [a for a, b in P["agents"] if b]
        beh = {a: self.run_behavior(b) for a, b in P["agents"] if b}
        for a in agents:  # behaviours of the initial agents start (guards checked) when the scenario starts
            pass
        finished = set()
        mon = self.run_body(P["monitor"], "monitor") if P.get("monitor") is not None else None
        comp = self.run_body(P["compose"], "compose") if P.get("compose") is not None else None
        elapsed = 0
        limit = None
        if P.get("terminate_after") is not None:
            limit = P["terminate_after"][0]
            if P["terminate_after"][1] == "seconds":
                limit = limit / self.dt
        objs = [a for a, _ in P["agents"]]
        for o in objs:  # initial read-back of dynamic properties
            self.ev(("read", o))
        actions_log = []
        while True:
            term = None
            # 1a. temporal requirements already violated?
            if P.get("require_always") and not self.cond(P["require_always"]):
                raise RefReject("require always")
            # 1. compose blocks of running scenarios
            if limit is not None and elapsed >= limit:
                term = "scenario: time limit"
            else:
                elapsed += 1
                if comp is not None:
                    try:
                        next(comp)
                    except StopIteration:
                        term = "scenario: compose finished"
                    except Stop as s:
                        term = "terminate" if s.kind == "scenario" else "terminate simulation"
                if term is None and P.get("terminate_when") and self.cond(P["terminate_when"]):
                    term = "terminate when"
            # a top-level scenario that has just ended (time limit, compose finished, terminate, terminate when) has
            # stopped its sub-scenarios: their recorded expressions are no longer evaluated in this step
            if term is not None and term != "terminate simulation":
                for sub in self.running_subs:
                    sub.running = False
            # 2. record
            if P.get("record"):
                self.ev("record")
            for sub in self.running_subs:
                if sub.running and self.P["subs"][sub.name].get("record"):
                    self.ev("sub-record")
            # 3. monitors
            if mon is not None and term is None:  # a scenario that has just stopped has stopped its monitors
                try:
                    next(mon)
                except StopIteration:
                    mon = None
                except Stop as s:
                    term = "monitor " + s.kind
            # 4. termination checks
            if term is not None:
                return term, actions_log
            if P.get("terminate_sim_when") and self.cond(P["terminate_sim_when"]):
                return "terminate simulation when", actions_log
            for sub in self.running_subs:
                c = self.P["subs"][sub.name].get("terminate_sim_when")
                if sub.running and c and self.cond(c):
                    return "terminate simulation when", actions_log
            if self.max_steps and self.t >= self.max_steps:
                return "time limit", actions_log
            # 5. behaviors in schedule order
            perm = self.perm
            if perm is not None and self.t % 2 == 1:
                perm = list(reversed(perm))
            order = [agents[i] for i in perm] if perm is not None else agents
            acts = {}
            for a in order:
                if a in finished:
                    acts[a] = ()
                    continue
                try:
                    acts[a] = next(beh[a])
                except StopIteration:
                    finished.add(a)
                    acts[a] = ()
                except Stop as s:
                    return "behavior " + s.kind, actions_log
            # 6. actions
            self.ev(("exec", tuple((a, tuple(acts[a])) for a in order)))
            for a in order:
                for x in acts[a]:
                    self.ev(("apply", x))
            actions_log.append(acts)
            # 7-9
            self.ev("simstep")
            self.t += 1
            for o in objs:
                self.ev(("read", o))


class SubScenario:
    def __init__(self, ref, name):
        self.ref, self.name = ref, name
        self.running = True

    def stop(self):
        self.running = False

    def steps(self):
        """One `yield` per time step while the sub-scenario keeps running (as _invokeInner does)."""
        ref, sub = self.ref, self.ref.P["subs"][self.name]
        ref.running_subs.append(self)
        try:
            yield from self._steps(ref, sub)
        finally:
            self.running = False

    def _steps(self, ref, sub):
        for c in sub.get("pre", []):  # preconditions are checked when the scenario starts
            if not ref.cond(c):
                raise RefReject("precondition " + c)
        if sub.get("setup_log"):
            ref.ev(sub["setup_log"])
        limit = None
        if sub.get("terminate_after"):
            vn, units = sub["terminate_after"]
            limit = ref.val(vn)
            if units == "seconds":
                limit = limit / ref.dt
        elapsed = 0
        comp = ref.run_body(sub["compose"], "compose") if sub.get("compose") is not None else None
        while True:
            if sub.get("require_always") and not ref.cond(sub["require_always"]):
                raise RefReject("require always (sub-scenario)")
            if limit is not None and elapsed >= limit:
                return
            elapsed += 1
            if comp is not None:
                try:
                    next(comp)
                except StopIteration:
                    return
                except Stop as s:
                    if s.kind == "simulation":
                        raise
                    return
            if sub.get("terminate_when") and ref.cond(sub["terminate_when"]):
                return
            yield ()
            if not self.running:
                return
