#!/bin/bash
# Build the overlay venv (offline): /venv's packages + crosshair-tool + z3-solver from the wheelhouse.
set -e
cd "$(dirname "$0")"
V=/verif/.venv
if [ -x "$V/bin/python" ] && "$V/bin/python" -c "import crosshair, z3, scenic" >/dev/null 2>&1; then
  exit 0
fi
rm -rf "$V"
/venv/bin/python -m venv "$V"
SP=$("$V/bin/python" -c "import sysconfig; print(sysconfig.get_paths()['purelib'])")
echo "import site; site.addsitedir('/venv/lib/python3.12/site-packages')" > "$SP/base.pth"
PIP_NO_INDEX=1 "$V/bin/python" -m pip install -q --no-index --find-links /opt/veriftools/wheels crosshair-tool z3-solver cvc5 2>&1 | tail -3
"$V/bin/python" -c "import crosshair, z3, scenic; print('overlay ok', z3.get_version_string())"
